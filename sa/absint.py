"""E3 - "BytesAI": a path-sensitive abstract interpreter for byte-length arithmetic over a Python subset.

Abstract values: integers as linear expressions over symbolic inputs (linarith.LinExpr), booleans as formulas over
linear constraints, None, bytes / str as (length, ordered pieces with provenance), tuples, fixed-length lists of
abstract values, objects with abstract fields, enum members, classes and functions of the analysed package.
A *state* is an environment plus a conjunction of integer linear constraints (the path condition); branches fork the
state (trace partitioning) and infeasible forks are pruned by the domain's own decision procedure
(Fourier-Motzkin + integer tightening + parity by case split on `x % m`).  In-package calls are inlined (bounded depth);
external operations use the transfer functions in this file (struct packing, slicing, concatenation, min/max/len,
divmod, str.encode ...).  Loops over concrete-length lists/ranges are unrolled; the `while` loops are handled by the
inductive-invariant machinery in `LoopSpec` (Houdini over template candidates) plus exact unrolling of the first
iterations for genuine witnesses.

Anything outside the modelled subset raises Unsupported (-> ANALYSIS-ERROR, never a violation).
"""

from __future__ import annotations

import ast
import struct
from fractions import Fraction
from typing import Optional, Callable

from . import AnalysisError
from .index import Index, FuncInfo, ClassInfo, ModuleInfo, Scope
from .linarith import LinExpr, Cons, le, lt, ge, gt, eq, infeasible, infeasible_cached, entails, find_model
from .common import const_eval, NotConst, norm


class Unsupported(AnalysisError):
    pass


# ---------------------------------------------------------------------------------------------------- values

class V:
    pass


class IntV(V):
    def __init__(self, e):
        self.e = e if isinstance(e, LinExpr) else LinExpr.c(e)

    def __repr__(self):
        return f"Int({self.e!r})"


class EnumIntV(IntV):
    """A member of an IntEnum: an integer constant that also has an identity (class, member name)."""

    def __init__(self, e, cls, name):
        super().__init__(e)
        self.cls, self.name = cls, name

    def __repr__(self):
        return f"{self.cls.name}.{self.name}({self.e!r})"


class FloatV(V):
    """A float we know nothing about (only its existence)."""

    def __init__(self, tag="float"):
        self.tag = tag

    def __repr__(self):
        return f"Float({self.tag})"


class BoolV(V):
    def __init__(self, f):
        self.f = f  # ('t',) ('f',) ('c', Cons) ('not', f) ('and', [..]) ('or', [..]) ('opaque', tag)

    def __repr__(self):
        return f"Bool({self.f!r})"


TRUE, FALSE = BoolV(("t",)), BoolV(("f",))


class NoneV(V):
    def __repr__(self):
        return "None"


NONE = NoneV()


class SeqV(V):
    """bytes / bytearray / str: symbolic length and an ordered list of pieces (tag, length, extra)."""

    def __init__(self, kind, length, pieces=None, const=None, mutable=False):
        self.kind = kind  # 'bytes' | 'str'
        self.length = length if isinstance(length, LinExpr) else LinExpr.c(length)
        self.pieces = pieces if pieces is not None else []
        self.const = const
        self.mutable = mutable

    def __repr__(self):
        return f"{self.kind}(len={self.length!r}, pieces={[p[0] for p in self.pieces]})"


class TupleV(V):
    """Immutable sequence of abstract values (tuples, and constant lists that are never mutated)."""

    def __init__(self, items, is_list=False):
        self.items = tuple(items)
        self.is_list = is_list

    def __repr__(self):
        return f"Tuple{list(self.items)!r}"


class IterTupleV(TupleV):
    """iter(<sequence>): yields the items of the sequence in order, and - unlike the sequence - is true even when there is
    nothing left to yield (an `if not iter(xs)` guard never fires)."""


class NTupleV(TupleV):
    """An instance of a typing.NamedTuple class: a tuple whose items can also be read by field name."""

    def __init__(self, items, cls, fields):
        super().__init__(items)
        self.cls, self.fields = cls, list(fields)

    def __repr__(self):
        return f"{self.cls.name}{list(self.items)!r}"


class ListV(V):
    """Reference to a mutable list living in the state's heap (so forks of the state do not share it)."""

    def __init__(self, oid):
        self.oid = oid

    def __repr__(self):
        return f"List@{self.oid}"


class DictV(V):
    def __init__(self, oid):
        self.oid = oid

    def __repr__(self):
        return f"Dict@{self.oid}"


class BufV(V):
    """Reference to a mutable bytearray in the heap: {'length': LinExpr, 'pieces': [...]}."""

    def __init__(self, oid):
        self.oid = oid

    def __repr__(self):
        return f"Bytearray@{self.oid}"


class ObjV(V):
    """Reference to an object of a package class; its fields live in the state's heap."""

    def __init__(self, cls: ClassInfo, oid, tag=None):
        self.cls = cls
        self.oid = oid
        self.tag = tag or cls.name

    def __repr__(self):
        return f"Obj<{self.cls.name}@{self.oid}>"


class FuncV(V):
    def __init__(self, func: FuncInfo, self_obj=None, closure=None):
        self.func = func
        self.self_obj = self_obj
        self.closure = closure  # snapshot of the defining frame's variables (dict), or None

    def __repr__(self):
        return f"Func<{self.func.short}>"


class ClassV(V):
    def __init__(self, cls: ClassInfo):
        self.cls = cls

    def __repr__(self):
        return f"Class<{self.cls.name}>"


class EnumV(V):
    def __init__(self, cls: ClassInfo, name: str):
        self.cls = cls
        self.name = name

    def __repr__(self):
        return f"{self.cls.name}.{self.name}"


class ModV(V):
    def __init__(self, mod=None, ext=None):
        self.mod = mod
        self.ext = ext


class ExtV(V):
    """Reference to something outside the package (module attribute, builtin, exception class ...)."""

    def __init__(self, name):
        self.name = name

    def __repr__(self):
        return f"Ext<{self.name}>"


class OpaqueV(V):
    """A value the analysis knows nothing about; using it where its content matters is Unsupported, except for
    attribute loads (which give further opaque values) and truth tests (both branches)."""

    def __init__(self, tag):
        self.tag = tag

    def __repr__(self):
        return f"Opaque({self.tag})"


class StubV(V):
    """A hand-made stand-in for an external object (e.g. a datetime): attribute -> abstract value; methods given as
    python callables (interp, args, kwargs, state, node) -> [Out]."""

    def __init__(self, tag, attrs=None, methods=None):
        self.tag = tag
        self.attrs = attrs or {}
        self.methods = methods or {}

    def __repr__(self):
        return f"Stub<{self.tag}>"


class RatioV(V):
    """num / den with an integer linear numerator and a positive constant denominator (result of int / const)."""

    def __init__(self, num: LinExpr, den: int):
        self.num, self.den = num, den

    def __repr__(self):
        return f"Ratio({self.num!r}/{self.den})"


class GenV(V):
    """A generator object: the call of a generator function, not yet run.  Its body is interpreted when it is
    iterated (`for`, `yield from`) or driven explicitly by a property module (Interp.drive)."""

    def __init__(self, func, args, kwargs, closure=None):
        self.func, self.args, self.kwargs, self.closure = func, list(args), dict(kwargs), closure

    def __repr__(self):
        return f"Gen<{self.func.short}>"


class SuperV(V):
    def __init__(self, cls, obj):
        self.cls, self.obj = cls, obj


class RangeV(V):
    def __init__(self, lo, hi):
        self.lo, self.hi = lo, hi


class SliceObjV(V):
    def __init__(self, start, stop):
        self.start, self.stop = start, stop


# ---------------------------------------------------------------------------------------------------- state

class State:
    _fresh_global = 0
    """Frames (locals), heap (fields of objects, items of lists/dicts, bytearrays), path condition, event log.
    All abstract values are immutable or heap references, so cloning is a shallow copy of these containers."""

    def __init__(self):
        self.frames: list[dict] = [{}]
        self.heap: dict[int, dict] = {}
        self.next_oid = 1
        self.cons: list[Cons] = []
        self.events: list = []
        self.trace: list = []
        self.fresh = 0
        self.sym_info: dict[str, str] = {}
        self.imprecise: list[str] = []
        self._model: Optional[dict] = {}

    @property
    def env(self) -> dict:
        return self.frames[-1]

    def clone(self) -> "State":
        st = State.__new__(State)
        st.frames = [dict(f) for f in self.frames]
        st.heap = {}
        for k, v in self.heap.items():
            e = dict(v)
            if "fields" in e:
                e["fields"] = dict(e["fields"])
            if "items" in e:
                e["items"] = list(e["items"]) if isinstance(e["items"], list) else dict(e["items"])
            if "pieces" in e:
                e["pieces"] = list(e["pieces"])
            st.heap[k] = e
        st.next_oid = self.next_oid
        st.cons = list(self.cons)
        st.events = list(self.events)
        st.trace = list(self.trace)
        st.fresh = self.fresh
        st.sym_info = dict(self.sym_info)
        st.imprecise = list(self.imprecise)
        st._model = getattr(self, "_model", None)
        if "nonneg_facts" in self.__dict__:
            st.nonneg_facts = {k: list(v) for k, v in self.nonneg_facts.items()}
            st._lemmas_done = set(self.__dict__.get("_lemmas_done", ()))
        return st

    def nonneg(self, sym_name: str, f: LinExpr):
        """Register the fact f >= 0 (about symbol sym_name) for use in product lemmas, and assume it."""
        self.__dict__.setdefault("nonneg_facts", {}).setdefault(sym_name, []).append(f)
        ok = self.add(ge(f, 0))
        # products already present in the path condition that involve this symbol get the new lemma too
        partners = set()
        for c in self.cons:
            for mono in c.e.terms:
                if len(mono) == 2 and sym_name in mono:
                    partners.add(mono[0] if mono[1] == sym_name else mono[1])
        for t in partners:
            self.lemmas(sym_name, t)
        return ok

    def lemmas(self, sa: str, sb: str):
        """f >= 0 (about sa) and g >= 0 (about sb)  =>  f*g >= 0   (monotonicity of multiplication)."""
        facts = self.__dict__.setdefault("nonneg_facts", {})
        done = self.__dict__.setdefault("_lemmas_done", set())
        for f in facts.get(sa, []):
            for g in facts.get(sb, []):
                key = frozenset((repr(f), repr(g)))
                if key in done:
                    continue
                done.add(key)
                prod = f * g
                if all(len(m) <= 2 for m in prod.terms):
                    self.cons.append(ge(prod, 0))
                    self._model = None

    # heap helpers
    def alloc(self, entry: dict) -> int:
        oid = self.next_oid
        self.next_oid += 1
        self.heap[oid] = entry
        return oid

    def new_obj(self, cls, tag=None, fields=None) -> "ObjV":
        return ObjV(cls, self.alloc({"fields": dict(fields or {})}), tag)

    def new_list(self, items) -> "ListV":
        return ListV(self.alloc({"items": list(items)}))

    def new_dict(self, items) -> "DictV":
        return DictV(self.alloc({"items": dict(items)}))

    def new_buf(self, length, pieces) -> "BufV":
        return BufV(self.alloc({"length": length, "pieces": list(pieces)}))

    def fields(self, obj: "ObjV") -> dict:
        return self.heap[obj.oid]["fields"]

    def items(self, v):
        if isinstance(v, TupleV):
            return list(v.items)
        return self.heap[v.oid]["items"]

    def new_sym(self, hint: str, info: str = "") -> LinExpr:
        # globally unique (constraints are carried from one State to another by the property modules)
        State._fresh_global += 1
        self.fresh = State._fresh_global
        name = f"{hint}#{self.fresh}"
        self.sym_info[name] = info
        return LinExpr.sym(name)

    def add(self, c: Cons) -> bool:
        """Add a constraint; False if the state becomes infeasible.  A concrete model of the path condition is
        carried along: while it also satisfies the new constraint, no elimination is needed."""
        if c.e.is_const():
            ok = (c.e.const <= 0) if c.op == "le" else (c.e.const == 0)
            if ok:
                return True
        self.cons.append(c)
        m = getattr(self, "_model", None)
        if m is not None:
            missing = c.e.symbols() - m.keys()
            if missing:
                m = self._extend_model(m, c, missing)
            if m is not None and c.holds(m):
                self._model = m
                return True
        if infeasible_cached(self.cons):
            self._model = None
            return False
        self._model = self._repair_model(getattr(self, "_model", None), c)
        return True

    def _repair_model(self, m, c: Cons):
        """Local repair: change one symbol of the new constraint so that it holds, keep it if everything else still
        holds.  (The model is only an accelerator; infeasibility is always decided by elimination.)"""
        if m is None:
            return None
        from math import floor, ceil
        for mono, coef in c.e.terms.items():
            if len(mono) != 1:
                continue
            sname = mono[0]
            if any(sname in mo and mo != mono for mo in c.e.terms):
                continue
            m2 = dict(m)
            m2[sname] = 0
            for other in c.e.symbols():
                m2.setdefault(other, 0)
            rest = c.e.eval(m2)
            v = Fraction(-rest, coef)
            cands = []
            if c.op == "eq":
                if v.denominator == 1:
                    cands = [int(v)]
            else:
                base = floor(v) if coef > 0 else ceil(v)
                cands = [base, base - 1 if coef > 0 else base + 1]
            for cand in cands:
                m2[sname] = cand
                try:
                    if all(k.holds(m2) for k in self.cons):
                        return m2
                except KeyError:
                    break
        return None

    def _extend_model(self, m: dict, c: Cons, missing: set):
        m = dict(m)
        missing = sorted(missing)
        for sname in missing[:-1]:
            m[sname] = 0
        last = missing[-1]
        # solve c for the last missing symbol if it occurs linearly on its own
        coef = c.e.terms.get((last,))
        others = [mo for mo in c.e.terms if last in mo and mo != (last,)]
        if coef is not None and not others:
            m[last] = 0
            rest = c.e.eval(m)
            v = Fraction(-rest, coef)
            from math import floor, ceil
            if c.op == "eq":
                if v.denominator != 1:
                    return None
                m[last] = int(v)
            else:
                m[last] = int(floor(v)) if coef > 0 else int(ceil(v))
            return m
        for cand in (0, 1, 2, -1):
            m[last] = cand
            if c.holds(m):
                return m
        return None

    def entails(self, c: Cons) -> bool:
        return entails(self.cons, c)

    def is_even(self, e: LinExpr) -> bool:
        j = LinExpr.sym("__parity_j")
        return infeasible_cached(self.cons + [eq(e, 2 * j + 1)])

    def is_odd(self, e: LinExpr) -> bool:
        j = LinExpr.sym("__parity_j")
        return infeasible_cached(self.cons + [eq(e, 2 * j)])

    def model(self, extra=()):  # witness for reporting
        return find_model(self.cons + list(extra))


class Out:
    """Outcome of evaluating an expression / executing statements on one path."""
    __slots__ = ("kind", "value", "st", "exc", "where")

    def __init__(self, kind, st, value=None, exc=None, where=None):
        self.kind = kind  # 'val' | 'raise' | 'return' | 'break' | 'continue' | 'next'
        self.st = st
        self.value = value
        self.exc = exc
        self.where = where

    def __repr__(self):
        return f"<Out {self.kind} {self.value if self.kind != 'raise' else self.exc}>"


STRUCT_RANGES = {
    "b": (-128, 127), "B": (0, 255), "h": (-32768, 32767), "H": (0, 65535), "i": (-2 ** 31, 2 ** 31 - 1),
    "I": (0, 2 ** 32 - 1), "l": (-2 ** 31, 2 ** 31 - 1), "L": (0, 2 ** 32 - 1), "q": (-2 ** 63, 2 ** 63 - 1),
    "Q": (0, 2 ** 64 - 1),
}

EXC_PARENTS = {
    "KeyError": "LookupError", "IndexError": "LookupError", "LookupError": "Exception", "ValueError": "Exception",
    "TypeError": "Exception", "RuntimeError": "Exception", "AttributeError": "Exception",
    "struct.error": "Exception", "UnicodeEncodeError": "ValueError", "OverflowError": "ArithmeticError",
    "ArithmeticError": "Exception", "ZeroDivisionError": "ArithmeticError", "StopIteration": "Exception",
    "NotImplementedError": "RuntimeError", "Exception": "BaseException", "OSError": "Exception",
}


# ---------------------------------------------------------------------------------------------------- interpreter

class Interp:
    def __init__(self, ix: Index, max_depth: int = 8, max_paths: int = 4000):
        self.ix = ix
        self.max_depth = max_depth
        self.max_paths = max_paths
        self.summaries: dict[str, Callable] = {}  # FuncInfo.qualname -> fn(interp, args, kwargs, st, node) -> [Out]
        self.loop_specs: dict[int, "LoopSpec"] = {}  # id(while node) -> spec
        self.depth = 0
        self.cur_func: list[FuncInfo] = []
        self.consulted: set[str] = set()
        self.n_paths = 0
        self.struct_formats: dict[str, str] = {}  # enum member name -> struct format
        self._load_struct_formats()
        self.on_event: Optional[Callable] = None
        self.yield_handlers: list = []
        self._st: Optional[State] = None

    # ------------------------------------------------------------------ enum table (RepresentationCode)
    def _load_struct_formats(self):
        rc = self.ix.find_class("RepresentationCode")
        self.repr_code_cls = rc
        self.repr_code_values = {}
        if rc is None:
            return
        for name, expr in rc.class_assigns.items():
            if isinstance(expr, ast.Tuple) and len(expr.elts) == 2:
                try:
                    self.repr_code_values[name] = const_eval(expr.elts[0])
                except NotConst:
                    continue
                conv = expr.elts[1]
                if isinstance(conv, ast.Call) and conv.args:
                    try:
                        self.struct_formats[name] = const_eval(conv.args[0])
                    except NotConst:
                        pass
                elif isinstance(conv, ast.Constant) and conv.value is None:
                    self.struct_formats[name] = None

    # ------------------------------------------------------------------ helpers
    def where(self, node) -> str:
        f = self.cur_func[-1] if self.cur_func else None
        return f"{f.module.relpath}:{getattr(node, 'lineno', 0)}" if f else f"?:{getattr(node, 'lineno', 0)}"

    def unsupported(self, node, what):
        raise Unsupported(f"{what} at {self.where(node)}: `{norm(node)[:80]}` is outside the modelled subset")

    def val(self, st, v) -> list[Out]:
        return [Out("val", st, v)]

    def raise_(self, st, exc: str, node) -> list[Out]:
        return [Out("raise", st, exc=exc, where=(self.where(node), norm(node)[:100],
                                               self.cur_func[-1].short if self.cur_func else ""))]

    def bind(self, outs: list[Out], fn) -> list[Out]:
        res = []
        for o in outs:
            if o.kind == "val":
                res.extend(fn(o.value, o.st))
            else:
                res.append(o)
        if len(res) > self.max_paths:
            raise Unsupported(f"path explosion (> {self.max_paths} paths)")
        return res

    def eval_list(self, exprs, st) -> list[Out]:
        """Evaluate expressions left to right; value = python list of V."""
        outs = [Out("val", st, [])]
        for e in exprs:
            def step(acc, s, e=e):
                return self.bind(self.eval(e, s), lambda v, s2: [Out("val", s2, acc + [v])])
            outs = self.bind(outs, step)
        return outs

    # ------------------------------------------------------------------ formulas
    def assume(self, st: State, f, polarity=True) -> list[State]:
        """States refining `st` in which formula f has the given truth value (possibly several: DNF)."""
        k = f[0]
        if k == "t":
            return [st] if polarity else []
        if k == "f":
            return [] if polarity else [st]
        if k == "not":
            return self.assume(st, f[1], not polarity)
        if k == "c":
            alts = [f[1]] if polarity else f[1].negations()
            res = []
            for c in alts:
                s2 = st.clone() if len(alts) > 1 else st
                if s2.add(c):
                    res.append(s2)
            return res
        if k == "opaque":
            st.imprecise.append(f"opaque condition {f[1]}")
            return [st]
        if (k == "and" and polarity) or (k == "or" and not polarity):
            states = [st]
            for sub in f[1]:
                nxt = []
                for s in states:
                    nxt.extend(self.assume(s, sub, polarity))
                states = nxt
            return states
        if (k == "or" and polarity) or (k == "and" and not polarity):
            res = []
            for sub in f[1]:
                res.extend(self.assume(st.clone(), sub, polarity))
            return res
        raise Unsupported(f"formula {f!r}")

    def truth_formula(self, v: V, node):
        if isinstance(v, BoolV):
            return v.f
        if isinstance(v, IntV):
            if v.e.is_const():
                return ("t",) if v.e.const != 0 else ("f",)
            return ("not", ("c", eq(v.e, 0)))
        if isinstance(v, NoneV):
            return ("f",)
        if isinstance(v, SeqV):
            if v.length.is_const():
                return ("t",) if v.length.const != 0 else ("f",)
            return ("not", ("c", eq(v.length, 0)))
        if isinstance(v, (IterTupleV, GenV)):
            return ("t",)       # iterator objects are true whatever they still hold
        if isinstance(v, TupleV):
            return ("t",) if v.items else ("f",)
        if isinstance(v, (ListV, DictV)):
            return ("opaque", "container-truth") if self._st is None else \
                (("t",) if self._st.items(v) else ("f",))
        if isinstance(v, BufV):
            return ("t",)
        if isinstance(v, (ObjV, FuncV, ClassV, EnumV, ExtV, ModV)):
            return ("t",)
        if isinstance(v, (OpaqueV, FloatV)):
            return ("opaque", getattr(v, "tag", "?"))
        self.unsupported(node, f"truth value of {v!r}")

    def branch(self, v: V, st: State, node) -> list[tuple[bool, State]]:
        self._st = st
        f = self.truth_formula(v, node)
        res = []
        if f[0] == "t":
            return [(True, st)]
        if f[0] == "f":
            return [(False, st)]
        for s in self.assume(st.clone(), f, True):
            s.trace.append((getattr(node, "lineno", 0), True))
            res.append((True, s))
        for s in self.assume(st.clone(), f, False):
            s.trace.append((getattr(node, "lineno", 0), False))
            res.append((False, s))
        return res

    # ------------------------------------------------------------------ expressions
    def eval(self, e: ast.expr, st: State) -> list[Out]:
        m = getattr(self, "e_" + type(e).__name__, None)
        if m is None:
            self.unsupported(e, f"expression kind {type(e).__name__}")
        return m(e, st)

    def e_Constant(self, e, st):
        v = e.value
        if v is None:
            return self.val(st, NONE)
        if isinstance(v, bool):
            return self.val(st, TRUE if v else FALSE)
        if isinstance(v, int):
            return self.val(st, IntV(v))
        if isinstance(v, float):
            return self.val(st, FloatV(repr(v)))
        if isinstance(v, bytes):
            return self.val(st, SeqV("bytes", len(v), [("const", LinExpr.c(len(v)), v)] if v else [], const=v))
        if isinstance(v, str):
            return self.val(st, SeqV("str", len(v), [("const", LinExpr.c(len(v)), v)] if v else [], const=v))
        self.unsupported(e, "constant")

    def e_JoinedStr(self, e, st):
        # an f-string all of whose parts are constants (after evaluation) is a constant; anything else is a string of
        # unknown content and length
        def go(i, st, acc):
            if i == len(e.values):
                return self.val(st, self.from_python("".join(acc)))
            v = e.values[i]
            if isinstance(v, ast.Constant):
                return go(i + 1, st, acc + [str(v.value)])
            if isinstance(v, ast.FormattedValue) and v.conversion == -1:
                spec = ""
                if v.format_spec is not None:
                    if not all(isinstance(x, ast.Constant) for x in v.format_spec.values):
                        return None
                    spec = "".join(str(x.value) for x in v.format_spec.values)

                def k(o):
                    x = o.value
                    c = None
                    if isinstance(x, IntV) and x.e.is_const():
                        c = int(x.e.const)
                    elif isinstance(x, SeqV) and x.kind == "str" and x.const is not None:
                        c = x.const
                    if c is None and isinstance(x, BoolV):
                        # a flag formatted into the string: one string per truth value of the flag
                        res = []
                        for pol, s2 in self.branch(x, o.st, v):
                            try:
                                r = go(i + 1, s2, acc + [format(pol, spec)])
                            except ValueError:
                                return None
                            if r is None:
                                return None
                            res.extend(r)
                        return res
                    if c is None:
                        return None
                    try:
                        return go(i + 1, o.st, acc + [format(c, spec)])
                    except ValueError:
                        return None
                outs = []
                for o in self.eval(v.value, st):
                    if o.kind != "val":
                        outs.append(o)
                        continue
                    r = k(o)
                    if r is None:
                        return None
                    outs.extend(r)
                return outs
            return None
        try:
            r = go(0, st.clone(), [])
        except Unsupported:
            r = None
        if r is not None:
            return r
        n = st.new_sym("fstr", "length of an f-string")
        st.add(ge(n, 0))
        return self.val(st, SeqV("str", n, [("fstring", None, None)]))

    def e_Name(self, e, st):
        env = st.env
        while True:
            if e.id in env:
                return self.val(st, env[e.id])
            env = env.get("__closure__")
            if env is None:
                break
        return self.val(st, self.lookup_global(e.id, e))

    def lookup_global(self, name: str, node) -> V:
        f = self.cur_func[-1] if self.cur_func else None
        mod = f.module if f else None
        # enclosing function's nested functions
        ff = f
        while ff is not None:
            if name in ff.nested:
                return FuncV(ff.nested[name])
            ff = ff.parent
        if f is not None and f.name == "<module>" and f.cls is not None:
            ca = f.cls.lookup_class_attr(name)  # a class-level initialiser referring to another class attribute
            if ca is not None and ca[0] is not f.node and not any(x is f.node for x in ast.walk(ca[0])):
                return self.eval_in_module(ca[0], ca[1], node, cls=ca[2])
        if mod is not None:
            ent = self.ix.resolve_name(name, mod)
            if ent is not None:
                return self.entity_value(ent, node)
        if name in ("True", "False"):
            return TRUE if name == "True" else FALSE
        return ExtV("builtins." + name)

    def entity_value(self, ent, node) -> V:
        k = ent[0]
        if k == "class":
            return ClassV(ent[1])
        if k == "func":
            return FuncV(ent[1])
        if k == "module":
            return ModV(mod=ent[1])
        if k == "external":
            return ExtV(ent[1])
        if k == "var":
            mod, name, expr = ent[1], ent[2], ent[3]
            if isinstance(expr, (ast.Dict, ast.Call)):
                from .common import module_dict_expr
                expr = module_dict_expr(self.ix, mod, name)  # + entries registered at import time
            return self.eval_in_module(expr, mod, node)
        if k == "classvar":
            return self.eval_in_module(ent[3], ent[4], node)
        self.unsupported(node, f"entity {k}")

    def eval_in_module(self, expr, mod: ModuleInfo, node, cls=None) -> V:
        """Evaluate a module- or class-level initialiser (constants, simple calls) in a pristine state."""
        try:
            c = const_eval(expr)
            return self.from_python(c)
        except NotConst:
            pass
        fake = FuncInfo.__new__(FuncInfo)
        fake.name, fake.module, fake.node, fake.cls, fake.parent, fake.nested = "<module>", mod, expr, cls, None, {}
        fake.decorators, fake.kind = [], "function"
        self.cur_func.append(fake)
        try:
            outs = self.eval(expr, State())
        finally:
            self.cur_func.pop()
        vals = [o for o in outs if o.kind == "val"]
        if len(vals) != 1:
            return OpaqueV(f"module-level {norm(expr)[:40]}")

        def freeze(v, s_):
            # the pristine state is dropped: a list made there is handed on as a constant (immutable) sequence
            if isinstance(v, ListV):
                return TupleV([freeze(x, s_) for x in s_.items(v)], is_list=True)
            if isinstance(v, TupleV):
                return TupleV([freeze(x, s_) for x in v.items], is_list=v.is_list)
            return v
        return freeze(vals[0].value, vals[0].st)

    def from_python(self, c) -> V:
        if c is None:
            return NONE
        if isinstance(c, bool):
            return TRUE if c else FALSE
        if isinstance(c, int):
            return IntV(c)
        if isinstance(c, float):
            return FloatV(repr(c))
        if isinstance(c, (bytes, str)):
            return SeqV("bytes" if isinstance(c, bytes) else "str", len(c),
                        [("const", LinExpr.c(len(c)), c)] if c else [], const=c)
        if isinstance(c, list):
            return TupleV([self.from_python(x) for x in c], is_list=True)
        if isinstance(c, tuple):
            return TupleV([self.from_python(x) for x in c])
        raise Unsupported(f"constant {c!r}")

    def e_Tuple(self, e, st):
        def go(vs, s):
            items = self._spread(e.elts, vs, s, e)
            if items is None:
                self.unsupported(e, "*iterable of unknown shape in a tuple display")
            return self.val(s, TupleV(items))
        return self.bind(self.eval_list(e.elts, st), go)

    def _spread(self, elts, vs, s, node):
        """Values of a list / tuple display with *iterable elements spliced in (None when one cannot be expanded)."""
        out = []
        for el, v in zip(elts, vs):
            if isinstance(el, ast.Starred):
                if isinstance(v, GenV):
                    return None
                items = self.iter_items(v, s, node)
                if items is None:
                    return None
                out.extend(items)
            else:
                out.append(v)
        return out

    def e_Starred(self, e, st):
        # (only inside a display or a call, where the enclosing node splices the value in)
        def go(v, s):
            if isinstance(v, GenV):
                return self.consume(v, s, e)
            return self.val(s, v)
        return self.bind(self.eval(e.value, st), go)

    def e_List(self, e, st):
        def go(vs, s):
            items = self._spread(e.elts, vs, s, e)
            if items is None:
                self.unsupported(e, "*iterable of unknown shape in a list display")
            return self.val(s, s.new_list(items))
        return self.bind(self.eval_list(e.elts, st), go)

    def e_Dict(self, e, st):
        keys = []
        for k in e.keys:
            try:
                keys.append(const_eval(k))
            except NotConst:
                keys = None
                break
        if keys is not None:
            return self.bind(self.eval_list(e.values, st), lambda vs, s: self.val(s, s.new_dict(zip(keys, vs))))
        if any(k is None for k in e.keys):
            return self.val(st, OpaqueV("dict"))      # {**other, ...}

        def with_all(vs, s):
            ks = [self.const_key(v) for v in vs[:len(e.keys)]]
            if any(isinstance(k, tuple) and k and k[0] == "?" for k in ks):
                return self.val(s, OpaqueV("dict"))
            return self.val(s, s.new_dict(zip(ks, vs[len(e.keys):])))
        # keys that are not literals but evaluate to constants (enum members, module constants)
        try:
            return self.bind(self.eval_list(list(e.keys) + list(e.values), st), with_all)
        except Unsupported:
            return self.val(st, OpaqueV("dict"))

    def e_IfExp(self, e, st):
        def go(c, s):
            res = []
            for b, s2 in self.branch(c, s, e.test):
                res.extend(self.eval(e.body if b else e.orelse, s2))
            return res
        return self.bind(self.eval(e.test, st), go)

    def e_NamedExpr(self, e, st):
        def go(v, s):
            s.env[e.target.id] = v
            return self.val(s, v)
        return self.bind(self.eval(e.value, st), go)

    def e_UnaryOp(self, e, st):
        def go(v, s):
            if isinstance(e.op, ast.Not):
                self._st = s
                f = self.truth_formula(v, e)
                if f[0] == "t":
                    return self.val(s, FALSE)
                if f[0] == "f":
                    return self.val(s, TRUE)
                return self.val(s, BoolV(("not", f)))
            if isinstance(e.op, ast.USub) and isinstance(v, IntV):
                return self.val(s, IntV(-v.e))
            if isinstance(e.op, ast.USub) and isinstance(v, FloatV):
                return self.val(s, FloatV("neg"))
            self.unsupported(e, "unary operator")
        return self.bind(self.eval(e.operand, st), go)

    def e_BoolOp(self, e, st):
        # value semantics of and/or: fork on the truth of each operand
        def rec(i, s):
            def go(v, s2):
                if i == len(e.values) - 1:
                    return self.val(s2, v)
                res = []
                for b, s3 in self.branch(v, s2, e.values[i]):
                    short = (not b) if isinstance(e.op, ast.And) else b
                    if short:
                        res.extend(self.val(s3, v))
                    else:
                        res.extend(rec(i + 1, s3))
                return res
            return self.bind(self.eval(e.values[i], s), go)
        # pure boolean operands: keep a formula instead of forking
        return rec(0, st)

    def e_Compare(self, e, st):
        def go(vs, s):
            parts = []
            for i, op in enumerate(e.ops):
                parts.append(self.compare(vs[i], op, vs[i + 1], s, e))
            if len(parts) == 1:
                return self.val(s, BoolV(parts[0]))
            return self.val(s, BoolV(("and", parts)))
        return self.bind(self.eval_list([e.left] + list(e.comparators), st), go)

    def compare(self, a: V, op, b: V, st, node):
        if isinstance(op, (ast.Is, ast.IsNot)):
            if isinstance(b, NoneV) or isinstance(a, NoneV):
                other = a if isinstance(b, NoneV) else b
                if isinstance(other, OpaqueV):
                    return ("opaque", "is-none:" + other.tag)
                r = isinstance(other, NoneV)
                r = r if isinstance(op, ast.Is) else not r
                return ("t",) if r else ("f",)
            if isinstance(a, EnumV) and isinstance(b, EnumV):
                r = a.name == b.name
                r = r if isinstance(op, ast.Is) else not r
                return ("t",) if r else ("f",)
            if isinstance(a, EnumIntV) and isinstance(b, EnumIntV):
                r = a.cls is b.cls and a.name == b.name
                r = r if isinstance(op, ast.Is) else not r
                return ("t",) if r else ("f",)
            if isinstance(a, ClassV) and isinstance(b, ClassV):
                # class objects are singletons: identity of two known classes is decided, not forked on
                r = a.cls is b.cls
                r = r if isinstance(op, ast.Is) else not r
                return ("t",) if r else ("f",)
            return ("opaque", "is")
        if isinstance(a, ClassV) and isinstance(b, ClassV) and isinstance(op, (ast.Eq, ast.NotEq)):
            r = a.cls is b.cls
            r = r if isinstance(op, ast.Eq) else not r
            return ("t",) if r else ("f",)
        if isinstance(a, IntV) and isinstance(b, IntV):
            table = {ast.Lt: lt, ast.LtE: le, ast.Gt: gt, ast.GtE: ge, ast.Eq: eq}
            if type(op) in table:
                return self.simplify(("c", table[type(op)](a.e, b.e)))
            if isinstance(op, ast.NotEq):
                return self.simplify(("not", ("c", eq(a.e, b.e))))
        if isinstance(a, BoolV) and isinstance(b, BoolV) and isinstance(op, (ast.Eq, ast.NotEq)):
            f = ("or", [("and", [a.f, b.f]), ("and", [("not", a.f), ("not", b.f)])])
            return f if isinstance(op, ast.Eq) else ("not", f)
        if isinstance(a, NoneV) or isinstance(b, NoneV):
            if isinstance(op, (ast.Eq, ast.NotEq)):
                r = isinstance(a, NoneV) and isinstance(b, NoneV)
                r = r if isinstance(op, ast.Eq) else not r
                return ("t",) if r else ("f",)
        if isinstance(op, (ast.In, ast.NotIn)) and isinstance(b, (TupleV, ListV)):
            bitems = st.items(b)
            if isinstance(a, EnumV) and all(isinstance(x, EnumV) for x in bitems):
                r = any(x.name == a.name for x in bitems)
                r = r if isinstance(op, ast.In) else not r
                return ("t",) if r else ("f",)
            if isinstance(a, IntV) and a.e.is_const() and all(isinstance(x, IntV) and x.e.is_const() for x in bitems):
                r = any(x.e.const == a.e.const for x in bitems)
                r = r if isinstance(op, ast.In) else not r
                return ("t",) if r else ("f",)
            if isinstance(a, ClassV) and all(isinstance(x, ClassV) for x in bitems):
                r = any(x.cls is a.cls for x in bitems)
                r = r if isinstance(op, ast.In) else not r
                return ("t",) if r else ("f",)
            if isinstance(a, SeqV) and a.const is not None and all(isinstance(x, SeqV) and x.const is not None
                                                                   for x in bitems):
                r = any(x.const == a.const for x in bitems)
                r = r if isinstance(op, ast.In) else not r
                return ("t",) if r else ("f",)
        if isinstance(a, (OpaqueV, FloatV)) or isinstance(b, (OpaqueV, FloatV)):
            return ("opaque", f"compare:{norm(node)[:40]}")
        if isinstance(a, SeqV) and isinstance(b, SeqV) and a.const is not None and b.const is not None \
                and isinstance(op, (ast.Eq, ast.NotEq)):
            r = a.const == b.const
            r = r if isinstance(op, ast.Eq) else not r
            return ("t",) if r else ("f",)
        self.unsupported(node, f"comparison {a!r} {type(op).__name__} {b!r}")

    def simplify(self, f):
        if f[0] == "c" and f[1].e.is_const():
            c = f[1]
            ok = (c.e.const <= 0) if c.op == "le" else (c.e.const == 0)
            return ("t",) if ok else ("f",)
        if f[0] == "not":
            inner = self.simplify(f[1])
            if inner[0] == "t":
                return ("f",)
            if inner[0] == "f":
                return ("t",)
            return ("not", inner)
        return f

    def e_BinOp(self, e, st):
        return self.bind(self.eval_list([e.left, e.right], st), lambda vs, s: self.binop(vs[0], e.op, vs[1], s, e))

    @staticmethod
    def is_int_enum(cls) -> bool:
        return any(isinstance(b, str) and b.split(".")[-1] == "IntEnum" for c in cls.mro() for b in c.bases)

    @staticmethod
    def enum_members(cls) -> list:
        """[(name, value expression)] of an Enum class, in definition order."""
        return [(k, v) for k, v in cls.class_assigns.items() if not k.startswith("_") and k not in cls.methods]

    def as_int(self, v: V):
        if isinstance(v, IntV):
            return v.e
        if isinstance(v, BoolV):
            if v.f[0] == "t":
                return LinExpr.c(1)
            if v.f[0] == "f":
                return LinExpr.c(0)
        return None

    def binop(self, a: V, op, b: V, st: State, node) -> list[Out]:
        # a bytearray operand of + / * behaves like bytes of its current content (the result is a new object)
        if isinstance(a, BufV):
            a = SeqV("bytes", st.heap[a.oid]["length"], list(st.heap[a.oid]["pieces"]))
        if isinstance(b, BufV):
            b = SeqV("bytes", st.heap[b.oid]["length"], list(st.heap[b.oid]["pieces"]))
        # a symbolic boolean used as a number: case split into 0 / 1
        for which, x in (("a", a), ("b", b)):
            if isinstance(x, BoolV) and x.f[0] not in ("t", "f") and isinstance(op, (ast.Add, ast.Sub, ast.Mult)):
                res = []
                for pol in (True, False):
                    for s2 in self.assume(st.clone(), x.f, pol):
                        xv = IntV(1 if pol else 0)
                        res.extend(self.binop(xv if which == "a" else a, op, xv if which == "b" else b, s2, node))
                return res
        ai, bi = self.as_int(a), self.as_int(b)
        if isinstance(a, SeqV) and isinstance(b, SeqV) and isinstance(op, ast.Add):
            if a.kind != b.kind:
                return self.raise_(st, "TypeError", node)
            const = a.const + b.const if (a.const is not None and b.const is not None) else None
            return self.val(st, SeqV(a.kind, a.length + b.length, a.pieces + b.pieces, const=const))
        if isinstance(op, ast.Mult) and ((isinstance(a, SeqV) and bi is not None) or (ai is not None and isinstance(b, SeqV))):
            seq, n = (a, bi) if isinstance(a, SeqV) else (b, ai)
            res = []
            # n <= 0 -> empty ; n >= 1 -> n copies
            for pos in (True, False):
                s2 = st.clone()
                c = ge(n, 1) if pos else le(n, 0)
                if not s2.add(c):
                    continue
                if pos:
                    const = seq.const * int(n.const) if (seq.const is not None and n.is_const()
                                                         and n.const < 4096) else None
                    res.extend(self.val(s2, SeqV(seq.kind, seq.length * n,
                                                 [("repeat", seq.length * n, (n, seq.pieces))], const=const)))
                else:
                    res.extend(self.val(s2, SeqV(seq.kind, 0, [], const=seq.const[:0] if seq.const is not None
                                                 else None)))
            return res
        if ai is not None and bi is not None:
            if isinstance(op, ast.Add):
                return self.val(st, IntV(ai + bi))
            if isinstance(op, ast.Sub):
                return self.val(st, IntV(ai - bi))
            if isinstance(op, ast.Mult):
                if not ai.is_const() and not bi.is_const():
                    self.product_lemmas(st, ai, bi)
                return self.val(st, IntV(ai * bi))
            if isinstance(op, ast.Pow) and ai.is_const() and bi.is_const() and 0 <= bi.const <= 64:
                return self.val(st, IntV(int(ai.const) ** int(bi.const)))
            if isinstance(op, (ast.Mod, ast.FloorDiv)) and not bi.is_const() and st.entails(ge(bi, 1)):
                q = st.new_sym("q", f"({ai!r}) // ({bi!r})")
                r = st.new_sym("r", f"({ai!r}) % ({bi!r})")
                st.add(eq(ai, q * bi + r))
                rn = next(iter(r.symbols()))
                st.nonneg(rn, r)
                st.nonneg(rn, bi - 1 - r)
                for csym in bi.symbols():
                    st.__dict__.setdefault("nonneg_facts", {}).setdefault(csym, []).append(bi - 1)
                st.events.append(("divmod", self.where(node), ai, bi, q, r))
                return self.val(st, IntV(r if isinstance(op, ast.Mod) else q))
            if isinstance(op, (ast.Mod, ast.FloorDiv)):
                if not bi.is_const() or bi.const <= 0:
                    self.unsupported(node, "modulo / floor division by a non-constant")
                m = int(bi.const)
                if ai.is_const():
                    r = int(ai.const) % m if isinstance(op, ast.Mod) else int(ai.const) // m
                    return self.val(st, IntV(r))
                q = st.new_sym("q", f"({ai!r}) // {m}")
                r = st.new_sym("r", f"({ai!r}) % {m}")
                if not (st.add(eq(ai, q * m + r)) and st.add(ge(r, 0)) and st.add(le(r, m - 1))):
                    return []
                return self.val(st, IntV(r if isinstance(op, ast.Mod) else q))
            if isinstance(op, ast.Div):
                if bi.is_const() and bi.const > 0 and bi.const.denominator == 1:
                    return self.val(st, RatioV(ai, int(bi.const)))
                return self.val(st, FloatV("div"))
            if isinstance(op, (ast.LShift,)) and bi.is_const() and 0 <= bi.const <= 64:
                return self.val(st, IntV(ai * (2 ** int(bi.const))))
            if isinstance(op, (ast.BitOr, ast.BitAnd, ast.BitXor)) and ai.is_const() and bi.is_const():
                x, y = int(ai.const), int(bi.const)
                return self.val(st, IntV(x | y if isinstance(op, ast.BitOr) else (x & y if isinstance(op, ast.BitAnd)
                                                                                  else x ^ y)))
            if isinstance(op, (ast.BitOr, ast.BitAnd)) and (ai.is_const() or bi.is_const()):
                x, c = (bi, int(ai.const)) if ai.is_const() else (ai, int(bi.const))
                if c >= 0:
                    return self.bit_op(op, x, c, st, node)
        if isinstance(a, (FloatV, OpaqueV)) or isinstance(b, (FloatV, OpaqueV)):
            return self.val(st, FloatV("arith") if isinstance(a, FloatV) or isinstance(b, FloatV)
                            else OpaqueV("arith"))
        if isinstance(op, ast.Mult) and isinstance(b, (ListV, TupleV)) and isinstance(a, IntV):
            a, b = b, a
        if isinstance(op, ast.Mult) and isinstance(a, (ListV, TupleV)) and isinstance(b, IntV) and b.e.is_const() \
                and 0 <= int(b.e.const) <= 64:
            items = list(st.items(a)) * int(b.e.const)
            return self.val(st, st.new_list(items) if isinstance(a, ListV) else TupleV(items))
        if isinstance(a, (ListV, TupleV)) and isinstance(b, (ListV, TupleV)) and isinstance(op, ast.Add):
            items = st.items(a) + st.items(b)
            return self.val(st, st.new_list(items) if isinstance(a, ListV) else TupleV(items))
        if isinstance(a, DictV) and isinstance(b, DictV) and isinstance(op, ast.BitOr):
            return self.val(st, st.new_dict({**st.items(a), **st.items(b)}))
        self.unsupported(node, f"binary operation on {a!r}, {b!r}")

    def product_lemmas(self, st: State, a: LinExpr, b: LinExpr):
        for sa in sorted(a.symbols()):
            for sb in sorted(b.symbols()):
                st.lemmas(sa, sb)

    def bit_op(self, op, x: LinExpr, c: int, st: State, node) -> list[Out]:
        """x | c and x & c for a non-negative constant c, exact where the bits cannot interact, otherwise bounded:
        for x >= 0:  max(x, c) <= x | c <= x + c   and   0 <= x & c <= min(x, c)."""
        res = []
        if isinstance(op, ast.BitOr):
            k = (c & -c).bit_length() - 1 if c else 0  # number of trailing zero bits of c
            s1 = st.clone()
            if c and s1.add(ge(x, 0)) and s1.add(le(x, 2 ** k - 1)):
                res.extend(self.val(s1, IntV(x + c)))  # disjoint bits: or == add
            s2 = st.clone()
            if s2.add(ge(x, 2 ** k if c else 0)):
                w = s2.new_sym("bitor", f"({x!r}) | {c:#x}")
                s2.add(ge(w, x))
                s2.add(ge(w, c))
                s2.add(le(w, x + c))
                s2.events.append(("bitor-overlap", self.where(node), x, c))
                res.extend(self.val(s2, IntV(w)))
            s3 = st.clone()
            if s3.add(le(x, -1)):
                self.unsupported(node, "bitwise or of a possibly negative value")
            return res
        # BitAnd
        full = c.bit_length() and c == 2 ** c.bit_length() - 1
        s1 = st.clone()
        if full and s1.add(ge(x, 0)) and s1.add(le(x, c)):
            res.extend(self.val(s1, IntV(x)))
        s2 = st.clone()
        out_of = [gt(x, c)] if full else [ge(x, 0)]
        if s2.add(out_of[0]):
            w = s2.new_sym("bitand", f"({x!r}) & {c:#x}")
            s2.add(ge(w, 0))
            s2.add(le(w, c))
            s2.add(le(w, x))
            s2.events.append(("bitand-wrap", self.where(node), x, c))
            res.extend(self.val(s2, IntV(w)))
        s3 = st.clone()
        if s3.add(le(x, -1)):
            w = s3.new_sym("bitand", f"({x!r}) & {c:#x}")
            s3.add(ge(w, 0))
            s3.add(le(w, c))
            s3.events.append(("bitand-wrap", self.where(node), x, c))
            res.extend(self.val(s3, IntV(w)))
        return res

    def e_Attribute(self, e, st):
        return self.bind(self.eval(e.value, st), lambda v, s: self.getattr(v, e.attr, s, e))

    def getattr(self, v: V, attr: str, st: State, node) -> list[Out]:
        if isinstance(v, ObjV):
            if attr in st.fields(v):
                return self.val(st, st.fields(v)[attr])
            m = v.cls.lookup(attr)
            if m is not None:
                if m.kind == "property":
                    return self.call_function(m, [v], {}, st, node)
                if m.kind == "staticmethod" or m.cls is None:
                    return self.val(st, FuncV(m))
                if m.kind == "classmethod":
                    return self.val(st, FuncV(m, ClassV(v.cls)))
                return self.val(st, FuncV(m, v))
            ca = v.cls.lookup_class_attr(attr)
            if ca is not None:
                return self.val(st, self.eval_in_module(ca[0], ca[1], node, cls=ca[2]))
            if attr == "__class__":
                return self.val(st, ClassV(v.cls))
            return self.raise_(st, "AttributeError", node)
        if isinstance(v, ClassV):
            cls = v.cls
            if self.repr_code_cls is not None and cls.is_subclass_of(self.repr_code_cls) \
                    and attr in self.repr_code_values:
                return self.val(st, EnumV(cls, attr))
            if self.is_int_enum(cls) and attr in dict(self.enum_members(cls)):
                # a member of an IntEnum is used as the integer it is
                try:
                    return self.val(st, EnumIntV(int(const_eval(dict(self.enum_members(cls))[attr])), cls, attr))
                except (NotConst, TypeError, ValueError):
                    self.unsupported(node, f"IntEnum member {cls.name}.{attr} with a value that is not a constant")
            if any(isinstance(b, str) and b.split(".")[-1] in ("Enum", "IntEnum") for c in cls.mro() for b in c.bases) \
                    and attr in cls.class_assigns and cls.lookup(attr) is None:
                return self.val(st, EnumV(cls, attr))
            m = cls.lookup(attr)
            if m is not None:
                if m.kind == "classmethod":
                    return self.val(st, FuncV(m, v))
                return self.val(st, FuncV(m))
            # metaclass property
            for c in cls.mro():
                if isinstance(c.metaclass, ClassInfo):
                    pm = c.metaclass.lookup(attr)
                    if pm is not None and pm.kind == "property":
                        return self.call_function(pm, [v], {}, st, node)
            ca = cls.lookup_class_attr(attr)
            if ca is not None:
                return self.val(st, self.eval_in_module(ca[0], ca[1], node, cls=ca[2]))
            if attr == "__name__":
                return self.val(st, self.from_python(cls.name))
            return self.val(st, OpaqueV(f"{cls.name}.{attr}"))
        if isinstance(v, EnumV):
            if attr == "value":
                if v.name in self.repr_code_values and v.cls is self.repr_code_cls:
                    return self.val(st, IntV(self.repr_code_values[v.name]))
                ca = v.cls.class_assigns.get(v.name)
                try:
                    return self.val(st, self.from_python(const_eval(ca)))
                except (NotConst, Unsupported):
                    return self.val(st, OpaqueV(f"{v!r}.value"))
            if attr == "name":
                return self.val(st, self.from_python(v.name))
            if attr == "converter":
                fmt = self.struct_formats.get(v.name)
                return self.val(st, NONE if fmt is None else ExtV(f"struct.Struct:{fmt}"))
            m = v.cls.lookup(attr)
            if m is not None:
                return self.val(st, FuncV(m, v))
            return self.val(st, OpaqueV(f"{v!r}.{attr}"))
        if isinstance(v, ModV):
            if v.mod is not None:
                ent = self.ix.resolve_dotted(v.mod.name + "." + attr)
                if ent is None:
                    self.unsupported(node, f"module attribute {attr}")
                return self.val(st, self.entity_value(ent, node))
            return self.val(st, ExtV(v.ext + "." + attr))
        if isinstance(v, ExtV):
            if v.name == "os" and attr.startswith("O_"):
                import os as _os
                if hasattr(_os, attr):
                    return self.val(st, IntV(int(getattr(_os, attr))))
                return self.raise_(st, "AttributeError", node)
            if v.name.startswith("struct.Struct:") and attr == "size":
                return self.val(st, IntV(struct.calcsize(v.name.split(":", 1)[1])))
            return self.val(st, ExtV(v.name + "." + attr))
        if isinstance(v, OpaqueV):
            return self.val(st, OpaqueV(f"{v.tag}.{attr}"))
        if isinstance(v, NTupleV) and attr in v.fields:
            return self.val(st, v.items[v.fields.index(attr)])
        if isinstance(v, NTupleV) and v.cls.lookup(attr) is not None:
            m = v.cls.lookup(attr)
            if m.kind == "property":
                return self.call_function(m, [v], {}, st, node)
            return self.val(st, FuncV(m) if m.kind == "staticmethod" else FuncV(m, v))
        if isinstance(v, (SeqV, ListV, TupleV, DictV, BufV)):
            return self.val(st, _BoundBuiltin(v, attr))
        if isinstance(v, StubV):
            if attr in v.attrs:
                return self.val(st, v.attrs[attr])
            if attr in v.methods:
                return self.val(st, _BoundBuiltin(v, attr))
            return self.raise_(st, "AttributeError", node)
        if isinstance(v, SuperV):
            start = v.obj.cls if isinstance(v.obj, ObjV) else (v.obj.cls if isinstance(v.obj, ClassV) else v.cls)
            mro = start.mro()
            idx = mro.index(v.cls) if v.cls in mro else 0
            for c in mro[idx + 1:]:
                if attr in c.methods:
                    mth = c.methods[attr]
                    if mth.kind == "staticmethod":
                        return self.val(st, FuncV(mth))
                    return self.val(st, FuncV(mth, v.obj))
            return self.val(st, ExtV("object." + attr))
        if isinstance(v, _FileV):
            return self.val(st, _BoundBuiltin(v, attr))
        if isinstance(v, SliceObjV) and attr in ("start", "stop"):
            return self.val(st, getattr(v, attr))
        if isinstance(v, EnumIntV) and attr in ("name", "value"):
            return self.val(st, self.from_python(v.name) if attr == "name" else IntV(v.e))
        if isinstance(v, IntV) or isinstance(v, FloatV):
            return self.val(st, _BoundBuiltin(v, attr))
        self.unsupported(node, f"attribute {attr} of {v!r}")

    def e_Subscript(self, e, st):
        def go(base, s):
            if isinstance(e.slice, ast.Slice):
                parts = [e.slice.lower, e.slice.upper]
                if e.slice.step is not None:
                    self.unsupported(e, "slice step")

                def with_bounds(bounds, s2):
                    lo, hi = bounds
                    return self.slice(base, lo, hi, s2, e)
                outs = [Out("val", s, [])]
                for p in parts:
                    def step(acc, s2, p=p):
                        if p is None:
                            return [Out("val", s2, acc + [None])]
                        return self.bind(self.eval(p, s2), lambda v, s3: [Out("val", s3, acc + [v])])
                    outs = self.bind(outs, step)
                return self.bind(outs, with_bounds)
            return self.bind(self.eval(e.slice, s), lambda idx, s2: self.index(base, idx, s2, e))
        return self.bind(self.eval(e.value, st), go)

    def slice(self, base: V, lo, hi, st: State, node) -> list[Out]:
        if isinstance(base, BufV):
            h = st.heap[base.oid]
            base = SeqV("bytes", h["length"], list(h["pieces"]), mutable=True)
        if isinstance(base, SeqV):
            lo_e = LinExpr.c(0) if lo is None or isinstance(lo, NoneV) else self.as_int(lo)
            hi_e = base.length if hi is None or isinstance(hi, NoneV) else self.as_int(hi)
            if lo_e is None or hi_e is None:
                self.unsupported(node, "slice bounds")
            # python clamps; the exact length `hi - lo` needs 0 <= lo <= hi <= len: recorded as an event so that the
            # property can demand it; paths on which it fails get the clamped semantics by case split
            res = []
            inb = [ge(lo_e, 0), le(lo_e, hi_e), le(hi_e, base.length)]
            s_in = st.clone()
            ok = all(s_in.add(c) for c in inb)
            if ok:
                s_in.events.append(("slice", self.where(node), lo_e, hi_e, base.length, True))
                res.extend(self.val(s_in, SeqV(base.kind, hi_e - lo_e,
                                               [("slice", hi_e - lo_e, (_base_tag(base), lo_e, hi_e))],
                                               mutable=False)))
            # out-of-bounds alternatives (only explored if feasible)
            for viol in inb:
                for neg in viol.negations():
                    s_out = st.clone()
                    if s_out.add(neg):
                        s_out.events.append(("slice", self.where(node), lo_e, hi_e, base.length, False))
                        ln = s_out.new_sym("cliplen", "length of a clamped slice")
                        s_out.add(ge(ln, 0))
                        s_out.add(le(ln, base.length))
                        res.extend(self.val(s_out, SeqV(base.kind, ln, [("clamped-slice", ln,
                                                                          (_base_tag(base), lo_e, hi_e))])))
                        break
            return res
        if isinstance(base, (ListV, TupleV)):
            lo_c = 0 if lo is None or isinstance(lo, NoneV) else (int(self.as_int(lo).const) if self.as_int(lo) is not None and self.as_int(lo).is_const() else None)
            hi_c = len(st.items(base)) if hi is None or isinstance(hi, NoneV) else (int(self.as_int(hi).const) if self.as_int(hi) is not None and self.as_int(hi).is_const() else None)
            if lo_c is None or hi_c is None:
                self.unsupported(node, "symbolic slice of a list")
            sub_items = st.items(base)[lo_c:hi_c]
            return self.val(st, st.new_list(sub_items) if isinstance(base, ListV) else TupleV(sub_items, base.is_list))
        if isinstance(base, OpaqueV):
            return self.val(st, OpaqueV(base.tag + "[:]"))
        self.unsupported(node, f"slice of {base!r}")

    def index(self, base: V, idx: V, st: State, node) -> list[Out]:
        if isinstance(base, (ListV, TupleV)):
            i = self.as_int(idx)
            if i is not None and not i.is_const() and 0 < len(st.items(base)) <= 256:
                # a table looked up with a symbolic index: one path per entry (negative indices count from the end,
                # as they do in Python), IndexError outside
                items = st.items(base)
                n = len(items)
                res = []
                for k in range(-n, n):
                    s2 = st.clone()
                    if s2.add(eq(i, k)):
                        res.extend(self.val(s2, items[k]))
                for cons in (ge(i, n), le(i, -n - 1)):
                    s3 = st.clone()
                    if s3.add(cons):
                        res.extend(self.raise_(s3, "IndexError", node))
                return res
            if i is None or not i.is_const():
                self.unsupported(node, "symbolic index")
            i = int(i.const)
            its = st.items(base)
            if -len(its) <= i < len(its):
                return self.val(st, its[i])
            return self.raise_(st, "IndexError", node)
        if isinstance(base, DictV):
            key = self.const_key(idx)
            if key in st.items(base):
                return self.val(st, st.items(base)[key])
            return self.raise_(st, "KeyError", node)
        if isinstance(base, OpaqueV):
            return self.val(st, OpaqueV(base.tag + "[]"))
        if isinstance(base, SeqV):
            return self.val(st, IntV(st.new_sym("byte")))
        self.unsupported(node, f"index of {base!r}")

    def const_key(self, v: V):
        if isinstance(v, SeqV) and v.const is not None:
            return v.const
        if isinstance(v, IntV) and v.e.is_const():
            return int(v.e.const)
        if isinstance(v, EnumV):
            return ("enum", v.name)
        if isinstance(v, ClassV):
            return ("cls", v.cls.qualname)
        if isinstance(v, NoneV):
            return None
        return ("?", id(v))

    def e_Lambda(self, e, st):
        f = self.cur_func[-1]
        while f is not None:
            for nf in f.nested.values():
                if nf.node is e:
                    return self.val(st, FuncV(nf, closure=dict(st.env)))
            f = f.parent
        self.unsupported(e, "lambda")

    def e_ListComp(self, e, st):
        """[elt for t1 in it1 if c1 ... for t2 in it2 ...] over iterables of known (finite) shape: the generators are
        unrolled in order, item by item, exactly as the nested loops they abbreviate."""
        opaque = []

        def run(gens, s, acc):
            # -> list[Out('val', state, acc_list)] (or non-val outs)
            if not gens:
                return self.bind(self.eval(e.elt, s), lambda v, s5: [Out("val", s5, acc + [v])])
            g = gens[0]

            def with_iter(it, s1):
                items = self.iter_items(it, s1, e)
                if items is None:
                    opaque.append(True)
                    return [Out("val", s1, acc)]
                outs = [Out("val", s1, acc)]
                for item in items:
                    def step(acc2, s2, item=item):
                        self.assign_target(g.target, item, s2, e)
                        conds = [Out("val", s2, True)]
                        for test in g.ifs:
                            def chk(ok, s3, test=test):
                                if not ok:
                                    return [Out("val", s3, False)]
                                out3 = []
                                for o in self.eval(test, s3):
                                    if o.kind != "val":
                                        out3.append(o)
                                        continue
                                    for b, s4 in self.branch(o.value, o.st, test):
                                        out3.append(Out("val", s4, b))
                                return out3
                            conds = self.bind(conds, chk)
                        res = []
                        for c in conds:
                            if c.kind != "val":
                                res.append(c)
                            elif c.value:
                                res.extend(run(gens[1:], c.st, acc2))
                            else:
                                res.append(Out("val", c.st, acc2))
                        return res
                    outs = self.bind(outs, step)
                return outs
            return self.bind(self.eval(g.iter, s), with_iter)
        outs = run(list(e.generators), st, [])
        if opaque:
            return self.bind(outs, lambda acc, s2: self.val(s2, OpaqueV("listcomp")))
        return self.bind(outs, lambda acc, s2: self.val(s2, s2.new_list(acc)))

    e_GeneratorExp = e_ListComp

    def iter_items(self, it: V, st, node) -> Optional[list]:
        if isinstance(it, (ListV, TupleV)):
            return list(st.items(it))
        if isinstance(it, RangeV):
            if it.lo.is_const() and it.hi.is_const():
                return [IntV(i) for i in range(int(it.lo.const), int(it.hi.const))]
            return None
        if isinstance(it, DictV):
            return [self.from_python(k) if not isinstance(k, tuple) else OpaqueV("key") for k in st.items(it)]
        if isinstance(it, ClassV) and self.is_int_enum(it.cls):
            try:
                return [EnumIntV(int(const_eval(v)), it.cls, k) for k, v in self.enum_members(it.cls)]
            except (NotConst, TypeError, ValueError):
                return None
        return None

    # ------------------------------------------------------------------ calls
    def e_Call(self, e, st):
        def with_callee(fv, s):
            pos_exprs = [a.value if isinstance(a, ast.Starred) else a for a in e.args]
            kw_exprs = [k.value for k in e.keywords]

            def with_args(vals, s2):
                pos = []
                for a, v in zip(e.args, vals[:len(e.args)]):
                    if isinstance(a, ast.Starred):
                        if isinstance(v, (TupleV, ListV)):
                            pos.extend(s2.items(v))
                        else:
                            self.unsupported(e, f"*args of {v!r}")
                    else:
                        pos.append(v)
                kws = {}
                for k, v in zip(e.keywords, vals[len(e.args):]):
                    if k.arg is None:
                        if isinstance(v, DictV):
                            for kk, vv in s2.items(v).items():
                                if not isinstance(kk, str):
                                    self.unsupported(e, "**kwargs with a non-string key")
                                kws[kk] = vv
                        else:
                            self.unsupported(e, f"**kwargs of {v!r}")
                    else:
                        kws[k.arg] = v
                return self.call(fv, pos, kws, s2, e)
            return self.bind(self.eval_list(pos_exprs + kw_exprs, s), with_args)
        return self.bind(self.eval(e.func, st), with_callee)

    def call(self, fv: V, args: list, kwargs: dict, st: State, node) -> list[Out]:
        if isinstance(fv, _PartialV):
            kw = dict(fv.kwargs)
            kw.update(kwargs)
            return self.call(fv.fn, list(fv.args) + list(args), kw, st, node)
        if isinstance(fv, FuncV):
            a = ([fv.self_obj] if fv.self_obj is not None else []) + list(args)
            return self.call_function(fv.func, a, kwargs, st, node, closure=fv.closure)
        if isinstance(fv, ClassV):
            return self.construct(fv.cls, args, kwargs, st, node)
        if isinstance(fv, ExtV):
            return self.call_external(fv.name, args, kwargs, st, node)
        if isinstance(fv, _BoundBuiltin):
            return self.call_method_builtin(fv.recv, fv.attr, args, kwargs, st, node)
        if isinstance(fv, OpaqueV):
            st.imprecise.append(f"call of opaque {fv.tag}")
            return self.val(st, OpaqueV(fv.tag + "()"))
        if isinstance(fv, ObjV) and fv.cls.lookup("__call__") is not None:
            return self.call_function(fv.cls.lookup("__call__"), [fv] + list(args), kwargs, st, node)   # callable object
        self.unsupported(node, f"call of {fv!r}")

    def construct(self, cls: ClassInfo, args, kwargs, st, node) -> list[Out]:
        # exception classes
        if cls.has_external_base("Exception") or cls.has_external_base("ValueError") \
                or cls.has_external_base("RuntimeError"):
            return self.val(st, ExtV("exc:" + cls.name))
        rec = record_fields(cls)
        if rec is not None and cls.lookup("__init__") is None:
            kind, fields = rec
            vals = {}
            for (fname, default), a in zip(fields, args):
                vals[fname] = a
            for k, v in kwargs.items():
                if k not in [f for f, _ in fields] or k in vals:
                    return self.raise_(st, "TypeError", node)
                vals[k] = v
            for fname, default in fields:
                if fname not in vals:
                    if default is None:
                        return self.raise_(st, "TypeError", node)
                    vals[fname] = self.eval_in_module(default, cls.module, node, cls=cls)
            if len(args) > len(fields):
                return self.raise_(st, "TypeError", node)
            if kind == "namedtuple":
                return self.val(st, NTupleV([vals[f] for f, _ in fields], cls, [f for f, _ in fields]))
            obj = st.new_obj(cls, fields=dict(vals))
            return self.val(st, obj)
        obj = st.new_obj(cls)
        init = cls.lookup("__init__")
        if init is None:
            return self.val(st, obj)
        outs = self.call_function(init, [obj] + list(args), kwargs, st, node)
        return [Out("val", o.st, obj) if o.kind == "val" else o for o in outs]

    def drive(self, f: FuncInfo, args: list, kwargs: dict, st: State, node=None) -> list[Out]:
        """Run a function; if it is a generator function, run its body to completion, every `yield` being recorded as
        an event (no consumer)."""
        self.yield_handlers.append(None)
        try:
            return self.call_function(f, args, kwargs, st, node or f.node, drive=True)
        finally:
            self.yield_handlers.pop()

    def call_function(self, f: FuncInfo, args: list, kwargs: dict, st: State, node, closure=None,
                      drive=False) -> list[Out]:
        if f.qualname in self.summaries:
            r = self.summaries[f.qualname](self, args, kwargs, st, node)
            if r is not None:
                return r
        if not drive and isinstance(f.node, ast.FunctionDef) and f.is_generator() \
                and not any(d.split(".")[-1] == "contextmanager" for d in f.decorators):
            return self.val(st, GenV(f, args, kwargs, closure))
        if self.depth >= self.max_depth:
            raise Unsupported(f"inlining depth {self.max_depth} exceeded at {f.short}")
        self.consulted.add(f.qualname)
        fn = f.node
        a = fn.args
        params = list(a.posonlyargs) + list(a.args)
        env: dict[str, V] = {}
        if closure is not None:
            env["__closure__"] = closure
        if len(args) > len(params) and a.vararg is None:
            return self.raise_(st, "TypeError", node)
        for p, v in zip(params, args):
            env[p.arg] = v
        if a.vararg is not None:
            env[a.vararg.arg] = TupleV(args[len(params):])
        defaults = dict(zip([p.arg for p in params][len(params) - len(a.defaults):], a.defaults))
        for p, d in zip(a.kwonlyargs, a.kw_defaults):
            if d is not None:
                defaults[p.arg] = d
        allnames = [p.arg for p in params] + [p.arg for p in a.kwonlyargs]
        extra_kw = {}
        for k, v in kwargs.items():
            if k in allnames:
                env[k] = v
            elif a.kwarg is not None:
                extra_kw[k] = v
            else:
                return self.raise_(st, "TypeError", node)
        if a.kwarg is not None:
            env[a.kwarg.arg] = st.new_dict(extra_kw)
        for name in allnames:
            if name not in env:
                if name in defaults:
                    env[name] = self.eval_in_module(defaults[name], f.module, node)
                else:
                    return self.raise_(st, "TypeError", node)
        st.frames.append(env)
        self.cur_func.append(f)
        self.depth += 1
        try:
            if isinstance(fn, ast.Lambda):
                outs = self.eval(fn.body, st)
                outs = [Out("return", o.st, o.value) if o.kind == "val" else o for o in outs]
            else:
                outs = self.exec_block(fn.body, st)
        finally:
            self.depth -= 1
            self.cur_func.pop()
        res = []
        for o in outs:
            if o.kind == "escape":
                res.append(o)
                continue
            o.st.frames.pop()
            if o.kind == "return":
                res.append(Out("val", o.st, o.value))
            elif o.kind == "next":
                res.append(Out("val", o.st, NONE))
            elif o.kind in ("raise", "loop-iteration"):
                res.append(o)
            else:
                raise Unsupported(f"{o.kind} outside loop in {f.short}")
        return res

    # external / builtin summaries
    def call_external(self, name: str, args, kwargs, st: State, node) -> list[Out]:
        short = name.split(".")[-1]
        if name in ("typing.cast", "typing_extensions.cast") and len(args) == 2:
            return self.val(st, args[1])
        if name in ("functools.partial", "partial") and args:
            return self.val(st, _PartialV(args[0], args[1:], kwargs))
        if name in ("operator.mul", "operator.add", "operator.sub", "_operator.mul") and len(args) == 2:
            op = {"mul": ast.Mult(), "add": ast.Add(), "sub": ast.Sub()}[short]
            return self.binop(args[0], op, args[1], st, node)
        if name == "builtins.getattr" and len(args) == 3 and isinstance(args[0], ExtV) and args[0].name == "os" \
                and isinstance(args[1], SeqV) and isinstance(args[1].const, str) and args[1].const.startswith("O_"):
            import os as _os
            return self.val(st, IntV(int(getattr(_os, args[1].const))) if hasattr(_os, args[1].const) else args[2])
        if name in ("builtins.open", "io.open") and args:
            mode = kwargs.get("mode", args[1] if len(args) > 1 else self.from_python("r"))
            st.events.append(("open", self.where(node), _tag(args[0]), mode))
            return self.val(st, _FileV(mode))
        if name == "os.open" and len(args) >= 2:
            fl = self.as_int(args[1])
            if fl is None or not fl.is_const():
                self.unsupported(node, "os.open with flags that are not constant")
            return self.val(st, _FdV(_tag(args[0]), int(fl.const)))
        if name == "os.fdopen" and args and isinstance(args[0], _FdV):
            import os as _os
            fd = args[0]
            # what the descriptor does to a pre-existing file, in the vocabulary of open(): truncating ('wb'),
            # appending ('ab') or writing in place ('r+b')
            eff = "wb" if fd.flags & _os.O_TRUNC else ("ab" if fd.flags & _os.O_APPEND else "r+b")
            if not fd.flags & (_os.O_WRONLY | _os.O_RDWR):
                eff = "rb"
            st.events.append(("open", self.where(node), fd.path, self.from_python(eff)))
            return self.val(st, _FileV(self.from_python(eff)))
        if name.startswith("builtins."):
            if short == "bytes" and len(args) == 1 and isinstance(args[0], SeqV) and args[0].kind == "bytes":
                return self.val(st, args[0])     # bytes(b) of a bytes object is an equal bytes object
            if short == "staticmethod" and len(args) == 1 and isinstance(args[0], FuncV):
                return self.val(st, FuncV(args[0].func))   # class-level alias `name = staticmethod(function)`
            if short == "len" and len(args) == 1:
                v = args[0]
                if isinstance(v, SeqV):
                    return self.val(st, IntV(v.length))
                if isinstance(v, (ListV, TupleV, DictV)):
                    return self.val(st, IntV(len(st.items(v))))
                if isinstance(v, BufV):
                    return self.val(st, IntV(st.heap[v.oid]["length"]))
                if isinstance(v, ObjV):
                    m = v.cls.lookup("__len__")
                    if m is not None:
                        return self.call_function(m, [v], {}, st, node)
                if isinstance(v, ClassV) and self.is_int_enum(v.cls):
                    return self.val(st, IntV(len(self.enum_members(v.cls))))
                if isinstance(v, OpaqueV):
                    n = st.new_sym("len", f"len({v.tag})")
                    st.add(ge(n, 0))
                    return self.val(st, IntV(n))
            if short in ("min", "max") and len(args) == 2 and all(self.as_int(a) is not None for a in args):
                x, y = self.as_int(args[0]), self.as_int(args[1])
                res = []
                s1, s2 = st.clone(), st.clone()
                if short == "min":
                    if s1.add(le(x, y)):
                        res.extend(self.val(s1, IntV(x)))
                    if s2.add(gt(x, y)):
                        res.extend(self.val(s2, IntV(y)))
                else:
                    if s1.add(ge(x, y)):
                        res.extend(self.val(s1, IntV(x)))
                    if s2.add(lt(x, y)):
                        res.extend(self.val(s2, IntV(y)))
                return res
            if short == "isinstance" and len(args) == 2:
                return self.val(st, BoolV(self.isinstance_formula(args[0], args[1], node)))
            if short == "int" and len(args) >= 1:
                v = args[0]
                if isinstance(v, IntV):
                    return self.val(st, v)
                if isinstance(v, BoolV):
                    i = self.as_int(v)
                    if i is not None:
                        return self.val(st, IntV(i))
                    b = st.new_sym("b", "int(bool)")
                    res = []
                    for pol in (True, False):
                        for s2 in self.assume(st.clone(), v.f, pol):
                            res.extend(self.val(s2, IntV(1 if pol else 0)))
                    return res
                if isinstance(v, SeqV) and v.const is not None:
                    try:
                        base = int(self.as_int(args[1]).const) if len(args) > 1 else 10
                        return self.val(st, IntV(int(v.const, base)))
                    except (ValueError, AttributeError):
                        return self.raise_(st, "ValueError", node)
                if isinstance(v, (FloatV, OpaqueV)):
                    n = st.new_sym("int", "int() of a float / unknown")
                    return self.val(st, IntV(n))
            if short == "bool" and len(args) == 1:
                f = self.truth_formula(args[0], node)
                return self.val(st, BoolV(f))
            if short == "str" and len(args) == 1:
                v = args[0]
                if isinstance(v, SeqV) and v.kind == "str":
                    return self.val(st, v)
                if isinstance(v, IntV) and v.e.is_const():
                    return self.val(st, self.from_python(str(int(v.e.const))))
                n = st.new_sym("strlen", f"len(str({_tag(v)}))")
                st.add(ge(n, 1 if isinstance(v, IntV) else 0))
                if isinstance(v, IntV) and st.entails(ge(v.e, 0)):
                    # decimal digits: 0 <= x <= 10^k - 1  =>  len(str(x)) <= k
                    for k in range(1, 25):
                        if st.entails(le(v.e, 10 ** k - 1)):
                            st.add(le(n, k))
                            break
                return self.val(st, SeqV("str", n, [("str-of", n, _tag(v))]))
            if short == "super" and not args and self.cur_func and self.cur_func[-1].cls is not None:
                f = self.cur_func[-1]
                pn = f.param_names
                selfv = st.env.get(pn[0]) if pn else None
                return self.val(st, SuperV(f.cls, selfv))
            if short == "range":
                ints = [self.as_int(a) for a in args]
                if any(i is None for i in ints):
                    self.unsupported(node, "range of non-int")
                if len(ints) == 1:
                    return self.val(st, RangeV(LinExpr.c(0), ints[0]))
                if len(ints) == 2:
                    return self.val(st, RangeV(ints[0], ints[1]))
            if short == "divmod" and len(args) == 2:
                n, c = self.as_int(args[0]), self.as_int(args[1])
                if n is None or c is None:
                    self.unsupported(node, "divmod of non-int")
                if c.is_const() and n.is_const():
                    q, r = divmod(int(n.const), int(c.const))
                    return self.val(st, TupleV([IntV(q), IntV(r)]))
                res = []
                s0 = st.clone()
                if s0.add(eq(c, 0)):
                    res.extend(self.raise_(s0, "ZeroDivisionError", node))
                s1 = st
                if not s1.add(ge(c, 1)):
                    if res:
                        return res
                    self.unsupported(node, "divmod by a possibly negative divisor")
                q = s1.new_sym("q", f"({n!r}) // ({c!r})")
                r = s1.new_sym("r", f"({n!r}) % ({c!r})")
                s1.add(eq(n, q * c + r))
                s1.add(ge(r, 0))
                s1.add(le(r, c - 1))
                qn, rn = next(iter(q.symbols())), next(iter(r.symbols()))
                for csym in c.symbols():
                    s1.__dict__.setdefault("nonneg_facts", {}).setdefault(csym, []).append(c - 1)
                s1.__dict__.setdefault("nonneg_facts", {}).setdefault(rn, []).append(r)
                s1.sym_info["divmod"] = "1"
                # monotonicity of multiplication by a non-negative factor: n >= 0 => q >= 0 and q*c >= 0
                s1.events.append(("divmod", self.where(node), n, c, q, r))
                if s1.entails(ge(n, 0)):
                    s1.nonneg(qn, q)
                    s1.add(ge(q * c, 0))
                res.extend(self.val(s1, TupleV([IntV(q), IntV(r)])))
                return res
            if short == "bytearray" and len(args) == 1 and isinstance(args[0], SeqV) and args[0].kind == "bytes":
                return self.val(st, st.new_buf(args[0].length, list(args[0].pieces)))    # a mutable copy of the bytes
            if short in ("bytearray", "bytes") and len(args) == 1 and isinstance(args[0], BufV):
                h = st.heap[args[0].oid]
                if short == "bytes":
                    return self.val(st, SeqV("bytes", h["length"], list(h["pieces"])))
                return self.val(st, st.new_buf(h["length"], list(h["pieces"])))
            if short in ("bytearray", "bytes") and len(args) == 1 and self.as_int(args[0]) is not None:
                n = self.as_int(args[0])
                if short == "bytearray":
                    return self.val(st, st.new_buf(n, [("zeros", n, None)]))
                return self.val(st, SeqV("bytes", n, [("zeros", n, None)]))
            if short in ("bytearray", "bytes") and not args:
                if short == "bytearray":
                    return self.val(st, st.new_buf(LinExpr.c(0), []))
                return self.val(st, SeqV("bytes", 0, [], const=b""))
            if short == "slice" and len(args) == 2:
                return self.val(st, SliceObjV(args[0], args[1]))
            if short in ("ValueError", "TypeError", "RuntimeError", "KeyError", "AttributeError", "IndexError",
                         "NotImplementedError", "StopIteration", "Exception", "OSError"):
                return self.val(st, ExtV("exc:" + short))
            if short in ("print", "repr", "id", "type", "callable", "hasattr", "getattr", "sum", "map", "filter",
                         "sorted", "list", "tuple", "any", "all", "enumerate", "zip", "set", "float", "round", "abs",
                         "reversed", "iter", "next"):
                return self.builtin_misc(short, args, kwargs, st, node)
            self.unsupported(node, f"builtin {short}")
        if name in ("struct.Struct", "Struct") and len(args) == 1 and isinstance(args[0], SeqV) and \
                isinstance(args[0].const, str):
            return self.val(st, ExtV(f"struct.Struct:{args[0].const}"))       # a compiled struct format
        if name in ("struct.pack",) and args and isinstance(args[0], SeqV) and isinstance(args[0].const, str):
            return self.struct_pack(args[0].const, args[1:], st, node)
        if name.startswith("struct.Struct:") and name.endswith(".pack"):
            fmt = name[len("struct.Struct:"):-len(".pack")]
            return self.struct_pack(fmt, args, st, node)
        if ".getLogger" in name:
            return self.val(st, ExtV("logger"))
        if name in ("logger.debug", "logger.info", "logger.warning", "logger.error", "logger.exception",
                    "logger.critical"):
            if name != "logger.debug" and name != "logger.info":
                st.events.append(("log", self.where(node), name.split(".")[1]))
            return self.val(st, NONE)
        if name.startswith("exc:"):
            return self.val(st, ExtV(name))
        if name in ("object.__init__", "object.__init_subclass__", "object.__setattr__"):
            return self.val(st, NONE)
        if name in ("progressbar.progressbar",):
            return self.val(st, args[0])
        # anything else external: opaque result, recorded
        st.events.append(("external-call", self.where(node), name, [_tag(a) for a in args]))
        return self.val(st, OpaqueV(name + "()"))

    def builtin_misc(self, short, args, kwargs, st, node):
        if short == "float":
            return self.val(st, FloatV("float()"))
        if short in ("iter", "next") and len(args) >= 1 and isinstance(args[0], OpaqueV):
            return self.val(st, OpaqueV(f"{short}({args[0].tag})"))
        if short == "next" and len(args) >= 1 and isinstance(args[0], (TupleV, ListV)) and st.items(args[0]):
            # (only reached as next(iter(<sequence>)): iter() hands the sequence on, so this is its first element)
            return self.val(st, st.items(args[0])[0])
        if short == "iter" and len(args) == 1 and isinstance(args[0], GenV):
            return self.val(st, args[0])
        if short == "iter" and len(args) == 1 and isinstance(args[0], (TupleV, ListV)):
            # (consumed once, in order, by the `for` / unpacking that follows)
            return self.val(st, IterTupleV(st.items(args[0])))
        if short in ("list", "tuple") and len(args) == 1 and isinstance(args[0], GenV):
            res = []
            for o in self.consume(args[0], st, node):
                if o.kind == "val":
                    res.extend(self.val(o.st, o.value if short == "list" else TupleV(o.st.items(o.value))))
                else:
                    res.append(o)
            return res
        if short in ("list", "tuple") and len(args) == 1 and isinstance(args[0], (ListV, TupleV)):
            its = st.items(args[0])
            return self.val(st, st.new_list(its) if short == "list" else TupleV(its))
        if short == "enumerate" and len(args) >= 1 and isinstance(args[0], GenV):
            # the values of the generator paired with a running number (of no interest: an unknown int >= start)
            start = self.as_int(kwargs["start"] if "start" in kwargs else (args[1] if len(args) > 1 else IntV(0)))
            if start is None:
                self.unsupported(node, "enumerate start")
            g = args[0]
            eg = GenV(g.func, g.args, g.kwargs, g.closure)
            eg.enumerate_from = start
            return self.val(st, eg)
        if short == "enumerate" and len(args) >= 1 and isinstance(args[0], (ListV, TupleV)):
            start = int(self.as_int(args[1]).const) if len(args) > 1 else 0
            return self.val(st, TupleV([TupleV([IntV(i + start), x]) for i, x in enumerate(st.items(args[0]))], True))
        if short == "zip" and args and all(isinstance(a, (ListV, TupleV)) for a in args):
            return self.val(st, TupleV([TupleV(list(t)) for t in zip(*[st.items(a) for a in args])], True))
        if short == "sorted" and len(args) == 1 and isinstance(args[0], (ListV, TupleV)):
            items = st.items(args[0])
            keyf = kwargs.get("key")
            rev = kwargs.get("reverse")
            keys = []
            cur = st
            for x in items:
                if keyf is None:
                    kv = x
                else:
                    outs = [o for o in self.call(keyf, [x], {}, cur, node)]
                    if len(outs) != 1 or outs[0].kind != "val":
                        self.unsupported(node, "sorted() with a key that forks or raises")
                    kv, cur = outs[0].value, outs[0].st
                if isinstance(kv, BoolV) and kv.f[0] in ("t", "f"):
                    keys.append(kv.f[0] == "t")
                elif isinstance(kv, IntV) and kv.e.is_const():
                    keys.append(int(kv.e.const))
                elif isinstance(kv, SeqV) and kv.const is not None:
                    keys.append(kv.const)
                else:
                    self.unsupported(node, f"sorted() with a symbolic key {kv!r}")
            order = sorted(range(len(items)), key=lambda i: keys[i],
                           reverse=isinstance(rev, BoolV) and rev.f == ("t",))
            cur.events.append(("sorted", self.where(node), order))
            return self.val(cur, cur.new_list([items[i] for i in order]))
        if short == "reversed" and len(args) == 1 and isinstance(args[0], (ListV, TupleV)):
            return self.val(st, TupleV(list(reversed(st.items(args[0]))), True))
        if short == "reversed" and len(args) == 1 and isinstance(args[0], RangeV) and args[0].lo.is_const() \
                and args[0].hi.is_const():
            return self.val(st, TupleV([IntV(i) for i in reversed(range(int(args[0].lo.const), int(args[0].hi.const)))],
                                       True))
        if short in ("list", "tuple") and not args:
            return self.val(st, st.new_list([]) if short == "list" else TupleV([]))
        if short == "sum" and len(args) == 1 and isinstance(args[0], (ListV, TupleV)):
            tot = LinExpr.c(0)
            for it in st.items(args[0]):
                i = self.as_int(it)
                if i is None:
                    self.unsupported(node, f"sum of non-int ({it!r})")
                tot = tot + i
            return self.val(st, IntV(tot))
        if short == "map" and len(args) >= 2 and all(isinstance(a, (ListV, TupleV)) for a in args[1:]):
            outs = [Out("val", st, [])]
            for tup in zip(*[st.items(a) for a in args[1:]]):
                def step(acc, s2, tup=tup):
                    return self.bind(self.call(args[0], list(tup), {}, s2, node),
                                     lambda v, s3: [Out("val", s3, acc + [v])])
                outs = self.bind(outs, step)
            return self.bind(outs, lambda acc, s2: self.val(s2, s2.new_list(acc)))
        if short == "round" and len(args) == 1 and isinstance(args[0], RatioV):
            r = args[0]
            k = st.new_sym("round", f"round(({r.num!r}) / {r.den})")
            # |k - num/den| <= 1/2
            st.add(le(2 * r.den * k, 2 * r.num + r.den))
            st.add(ge(2 * r.den * k, 2 * r.num - r.den))
            return self.val(st, IntV(k))
        if short == "round" and args:
            if isinstance(args[0], IntV):
                return self.val(st, args[0])
            n = st.new_sym("round", "round() of a float")
            return self.val(st, IntV(n))
        if short in ("repr", "print", "id", "type", "callable", "hasattr", "getattr", "sorted", "any", "all",
                     "enumerate", "zip", "set", "filter", "abs", "list", "tuple"):
            return self.val(st, OpaqueV(short + "()"))
        self.unsupported(node, f"builtin {short}")

    def isinstance_formula(self, v: V, t: V, node):
        names = []
        for x in (t.items if isinstance(t, TupleV) else [t]):
            if isinstance(x, ExtV):
                names.append(x.name.split(".")[-1])
            elif isinstance(x, ClassV):
                names.append(x.cls)
            else:
                return ("opaque", "isinstance")
        if isinstance(v, OpaqueV):
            return ("opaque", f"isinstance({v.tag})")

        def kind_names(v):
            if isinstance(v, IntV):
                return {"int", "Number", "object"}
            if isinstance(v, BoolV):
                return {"bool", "int", "Number", "object"}
            if isinstance(v, (FloatV, RatioV)):
                return {"float", "Number", "object"}
            if isinstance(v, StubV):
                return {v.tag, "object"}
            if isinstance(v, NoneV):
                return {"NoneType", "object"}
            if isinstance(v, SeqV):
                return ({"str"} if v.kind == "str" else ({"bytearray"} if v.mutable else {"bytes"})) | {"object"}
            if isinstance(v, ListV):
                return {"list", "object"}
            if isinstance(v, BufV):
                return {"bytearray", "object"}
            if isinstance(v, TupleV):
                return {"list" if v.is_list else "tuple", "object"}
            if isinstance(v, DictV):
                return {"dict", "object"}
            return {"object"}
        for n in names:
            if isinstance(n, ClassInfo):
                if isinstance(v, ObjV) and v.cls.is_subclass_of(n):
                    return ("t",)
                if isinstance(v, EnumV) and v.cls.is_subclass_of(n):
                    return ("t",)
            elif n in kind_names(v):
                return ("t",)
            elif n == "type" and isinstance(v, ClassV):
                return ("t",)
        return ("f",)

    def struct_pack(self, fmt: str, args, st: State, node) -> list[Out]:
        """Struct(fmt).pack(v...): length calcsize(fmt); raises struct.error unless every integer is in range."""
        size = struct.calcsize(fmt)
        codes = [c for c in fmt if c.isalpha()]
        if len(codes) != len(args):
            return self.raise_(st, "struct.error", node)
        res = []
        ok = st
        for code, a in zip(codes, args):
            if code in STRUCT_RANGES:
                lo, hi = STRUCT_RANGES[code]
                i = self.as_int(a)
                if i is None:
                    if isinstance(a, (OpaqueV,)):
                        ok.imprecise.append("struct.pack of an opaque integer")
                        continue
                    if isinstance(a, FloatV):
                        return self.raise_(st, "struct.error", node)
                    return self.raise_(st, "struct.error", node)
                for viol in (lt(i, lo), gt(i, hi)):
                    s_bad = ok.clone()
                    if s_bad.add(viol):
                        s_bad.events.append(("pack-out-of-range", self.where(node), fmt, i))
                        res.extend(self.raise_(s_bad, "struct.error", node))
                if not (ok.add(ge(i, lo)) and ok.add(le(i, hi))):
                    return res
            elif code in ("f", "d"):
                if isinstance(a, (SeqV, NoneV, ObjV)):
                    return self.raise_(st, "struct.error", node)
        ok.events.append(("pack", self.where(node), fmt, [self.as_int(a) for a in args]))
        if len(codes) > 1 and fmt[:1] in "<>!=" and fmt[1:] == "".join(codes):
            # a multi-field format with an explicit byte order has no padding: it is the concatenation of its fields
            pieces = []
            for code, a in zip(codes, args):
                f1 = fmt[0] + code
                pieces.append(("pack:" + f1, LinExpr.c(struct.calcsize(f1)),
                               [self.as_int(a) if self.as_int(a) is not None else _tag(a)]))
            res.extend(self.val(ok, SeqV("bytes", size, pieces)))
            return res
        res.extend(self.val(ok, SeqV("bytes", size, [("pack:" + fmt, LinExpr.c(size),
                                                       [self.as_int(a) if self.as_int(a) is not None else _tag(a)
                                                        for a in args])])))
        return res

    def call_method_builtin(self, recv: V, attr: str, args, kwargs, st: State, node) -> list[Out]:
        if isinstance(recv, SeqV):
            if attr == "encode" and recv.kind == "str":
                enc = args[0].const if args and isinstance(args[0], SeqV) else "utf-8"
                if "errors" in kwargs or len(args) > 1:
                    st.events.append(("encode-errors-arg", self.where(node)))
                st.events.append(("encode", self.where(node), enc, _pieces_tags(recv)))
                const = None
                if recv.const is not None:
                    try:
                        const = recv.const.encode(enc)
                    except UnicodeEncodeError:
                        return self.raise_(st, "UnicodeEncodeError", node)
                # strict ascii: one byte per character (or UnicodeEncodeError, a separate raise path)
                res = []
                if recv.const is None:
                    s_bad = st.clone()
                    res.extend(self.raise_(s_bad, "UnicodeEncodeError", node))
                res.extend(self.val(st, SeqV("bytes", recv.length, list(recv.pieces), const=const)))
                return res
            if attr == "format" and recv.const is not None:
                vals = []
                for a in args:
                    i = self.as_int(a)
                    if i is None or not i.is_const():
                        n = st.new_sym("fmtlen", "length of a formatted string")
                        st.add(ge(n, 0))
                        return self.val(st, SeqV("str", n, [("format", n, recv.const)]))
                    vals.append(int(i.const))
                return self.val(st, self.from_python(recv.const.format(*vals)))
            if attr in ("strip", "upper", "lower", "replace", "lstrip", "rstrip") and recv.const is not None \
                    and all(isinstance(a, SeqV) and a.const is not None for a in args):
                return self.val(st, self.from_python(getattr(recv.const, attr)(*[a.const for a in args])))
            if attr in ("upper", "lower"):
                return self.val(st, recv)
            if attr in ("rjust", "ljust") and args and self.as_int(args[0]) is not None:
                n = self.as_int(args[0])
                fill = args[1].const if len(args) > 1 and isinstance(args[1], SeqV) and args[1].const else \
                    (" " if recv.kind == "str" else b" ")
                res = []
                s1 = st.clone()
                if s1.add(ge(recv.length, n)):
                    res.extend(self.val(s1, recv))
                s2 = st.clone()
                if s2.add(lt(recv.length, n)):
                    padlen = n - recv.length
                    pad = ("repeat", padlen, (padlen, [("const", LinExpr.c(1), fill)]))
                    pieces = ([pad] + list(recv.pieces)) if attr == "rjust" else (list(recv.pieces) + [pad])
                    res.extend(self.val(s2, SeqV(recv.kind, n, pieces)))
                return res
            if attr == "join" and len(args) == 1 and isinstance(args[0], GenV):
                res = []
                for o in self.consume(args[0], st, node):
                    if o.kind == "val":
                        res.extend(self.call_method_builtin(recv, attr, [o.value], kwargs, o.st, node))
                    else:
                        res.append(o)
                return res
            if attr == "join" and len(args) == 1 and isinstance(args[0], (TupleV, ListV)):
                items = args[0].items if isinstance(args[0], TupleV) else st.items(args[0])
                if all(isinstance(x, SeqV) and x.kind == recv.kind for x in items) and \
                        (recv.const is not None or st.entails(eq(recv.length, 0))):
                    sep_empty = (recv.const is not None and len(recv.const) == 0) or st.entails(eq(recv.length, 0))
                    if sep_empty or len(items) <= 1:
                        length, pieces, const = LinExpr.c(0), [], recv.const[:0] if recv.const is not None else None
                        for x in items:
                            length = length + x.length
                            pieces = pieces + list(x.pieces)
                            const = const + x.const if (const is not None and x.const is not None) else None
                        return self.val(st, SeqV(recv.kind, length, pieces, const=const))
            if attr in ("startswith", "endswith", "split", "join", "strip", "replace"):
                return self.val(st, OpaqueV("str." + attr))
        if isinstance(recv, ListV):
            if attr == "append" and len(args) == 1:
                st.items(recv).append(args[0])
                return self.val(st, NONE)
            if attr == "extend" and len(args) == 1 and isinstance(args[0], (ListV, TupleV)):
                st.items(recv).extend(st.items(args[0]))
                return self.val(st, NONE)
        if isinstance(recv, DictV):
            if attr == "get":
                key = self.const_key(args[0])
                d = st.items(recv)
                if key in d:
                    return self.val(st, d[key])
                return self.val(st, args[1] if len(args) > 1 else NONE)
            if attr in ("items", "values", "keys"):
                d = st.items(recv)
                if attr == "values":
                    return self.val(st, TupleV(list(d.values()), True))
                if attr == "keys":
                    return self.val(st, TupleV([self._key_value(k) for k in d], True))
                return self.val(st, TupleV([TupleV([self._key_value(k), v]) for k, v in d.items()], True))
        if isinstance(recv, StubV) and attr in recv.methods:
            return recv.methods[attr](self, args, kwargs, st, node)
        if isinstance(recv, _FileV) and attr in ("seek", "truncate", "flush", "tell", "close"):
            st.events.append(("file-" + attr, self.where(node), [_tag(a) for a in args]))
            return self.val(st, OpaqueV("file." + attr))
        if isinstance(recv, _FileV) and attr == "write" and len(args) == 1:
            a = args[0]
            if isinstance(a, BufV):
                a = SeqV("bytes", st.heap[a.oid]["length"], list(st.heap[a.oid]["pieces"]))
            if not isinstance(a, SeqV):
                self.unsupported(node, "file write of a non-bytes value")
            st.events.append(("file-write", self.where(node), recv.mode, a.length, _pieces_tags(a), list(st.cons)))
            return self.val(st, NONE)
        if isinstance(recv, (IntV, FloatV)) and attr in ("is_integer", "item"):
            return self.val(st, OpaqueV(attr))
        self.unsupported(node, f"method {attr} of {recv!r}")

    def _key_value(self, k) -> V:
        if isinstance(k, tuple) and k and k[0] == "enum" and self.repr_code_cls is not None:
            return EnumV(self.repr_code_cls, k[1])
        if isinstance(k, tuple) and k and k[0] == "cls" and k[1] in self.ix.classes:
            return ClassV(self.ix.classes[k[1]])
        if k is None:
            return NONE
        if isinstance(k, tuple):
            return OpaqueV("key")
        return self.from_python(k)

    # ------------------------------------------------------------------ statements
    def exec_block(self, stmts, st: State) -> list[Out]:
        outs = [Out("next", st)]
        for s in stmts:
            nxt = []
            for o in outs:
                if o.kind == "next":
                    nxt.extend(self.exec(s, o.st))
                else:
                    nxt.append(o)
            outs = nxt
            if len(outs) > self.max_paths:
                raise Unsupported(f"path explosion (> {self.max_paths} paths)")
        return outs

    def exec(self, s: ast.stmt, st: State) -> list[Out]:
        m = getattr(self, "s_" + type(s).__name__, None)
        if m is None:
            self.unsupported(s, f"statement kind {type(s).__name__}")
        return m(s, st)

    def to_next(self, outs: list[Out]) -> list[Out]:
        return [Out("next", o.st) if o.kind == "val" else o for o in outs]

    def s_Pass(self, s, st):
        return [Out("next", st)]

    def s_Expr(self, s, st):
        if isinstance(s.value, ast.Constant):
            return [Out("next", st)]
        if isinstance(s.value, (ast.Yield, ast.YieldFrom)):
            return self.do_yield(s.value, st)
        return self.to_next(self.eval(s.value, st))

    def do_yield(self, y, st):
        if isinstance(y, ast.YieldFrom):
            def go(v, s2):
                if isinstance(v, GenV):
                    # delegate: the sub-generator's yields go to the same consumer
                    outs = self.call_function(v.func, v.args, v.kwargs, s2, y, closure=v.closure, drive=True)
                    return [Out("next", o.st) if o.kind == "val" else o for o in outs]
                items = self.iter_items(v, s2, y)
                if items is not None:
                    outs = [Out("next", s2)]
                    for item in items:
                        outs = [x for o in outs for x in (self.emit(item, o.st, y) if o.kind == "next" else [o])]
                    return outs
                s2.events.append(("yield-from", self.where(y), v, list(s2.cons)))
                return [Out("next", s2)]
            return self.bind(self.eval(y.value, st), go)
        if y.value is None:
            return self.emit(NONE, st, y)
        return self.bind(self.eval(y.value, st), lambda v, s2: self.emit(v, s2, y))

    def consume(self, gen: "GenV", st: State, node) -> list[Out]:
        """Run a generator to exhaustion, collecting what it yields: one Out('val', state, list) per path."""
        acc = st.new_list([])

        def handler(v, s2, n2):
            s2.items(acc).append(v)
            return [Out("next", s2)]
        self.yield_handlers.append(handler)
        try:
            outs = self.call_function(gen.func, gen.args, gen.kwargs, st, node, closure=gen.closure, drive=True)
        finally:
            self.yield_handlers.pop()
        return [Out("val", o.st, acc) if o.kind == "val" else o for o in outs]

    def emit(self, v: V, st: State, node) -> list[Out]:
        """One value leaves the generator: hand it to the consumer (a `for` loop being interpreted) or log it."""
        h = self.yield_handlers[-1] if self.yield_handlers else None
        if h is None:
            st.events.append(("yield", self.where(node), v, list(st.cons)))
            return [Out("next", st)]
        return h(v, st, node)

    def for_over_generator(self, s: ast.For, gen: "GenV", st: State) -> list[Out]:
        base_frames = len(st.frames)
        base_cf = len(self.cur_func)
        base_depth = self.depth

        def handler(v, s2, node):
            saved = s2.frames[base_frames:]
            del s2.frames[base_frames:]
            saved_cf = self.cur_func[base_cf:]
            del self.cur_func[base_cf:]
            saved_depth, self.depth = self.depth, base_depth
            self.yield_handlers.append(outer)
            try:
                outs = []
                if getattr(gen, "enumerate_from", None) is not None:
                    k = s2.new_sym("enum", "running number of enumerate()")
                    s2.add(ge(k, gen.enumerate_from))
                    v = TupleV([IntV(k), v])
                for a in self.assign_target(s.target, v, s2, s):
                    if a.kind == "next":
                        outs.extend(self.exec_block(s.body, a.st))
                    else:
                        outs.append(a)
            finally:
                self.yield_handlers.pop()
                self.cur_func.extend(saved_cf)
                self.depth = saved_depth
            res = []
            for o in outs:
                if o.kind in ("next", "continue"):
                    o.st.frames.extend(dict(fr) for fr in saved)
                    res.append(Out("next", o.st))
                elif o.kind == "loop-iteration":
                    res.append(o)
                else:
                    # break / return / raise of the consumer: unwinds the generator and the loop
                    res.append(Out("escape", o.st, value=o))
            return res
        outer = self.yield_handlers[-1] if self.yield_handlers else None
        self.yield_handlers.append(handler)
        try:
            outs = self.call_function(gen.func, gen.args, gen.kwargs, st, s, closure=gen.closure, drive=True)
        finally:
            self.yield_handlers.pop()
        res = []
        for o in outs:
            if o.kind == "val":
                if s.orelse:
                    res.extend(self.exec_block(s.orelse, o.st))
                else:
                    res.append(Out("next", o.st))
            elif o.kind == "escape":
                inner = o.value
                if inner.kind == "break":
                    res.append(Out("next", inner.st))
                else:
                    res.append(inner)
            else:
                res.append(o)
        return res

    def s_Assign(self, s, st):
        def go(v, s2):
            outs = [Out("next", s2)]
            for t in s.targets:
                outs2 = []
                for o in outs:
                    if o.kind == "next":
                        outs2.extend(self.assign_target(t, v, o.st, s))
                    else:
                        outs2.append(o)
                outs = outs2
            return outs
        return self.bind(self.eval(s.value, st), go)

    def s_AnnAssign(self, s, st):
        if s.value is None:
            return [Out("next", st)]
        return self.bind(self.eval(s.value, st), lambda v, s2: self.assign_target(s.target, v, s2, s))

    def s_AugAssign(self, s, st):
        load = ast.fix_missing_locations(ast.parse(ast.unparse(s.target), mode="eval").body)
        ast.copy_location(load, s.target)

        def go(vs, s2):
            return self.bind(self.binop(vs[0], s.op, vs[1], s2, s),
                             lambda v, s3: self.assign_target(s.target, v, s3, s))
        return self.bind(self.eval_list([load, s.value], st), go)

    def assign_target(self, t, v: V, st: State, node) -> list[Out]:
        if isinstance(t, ast.Name):
            st.env[t.id] = v
            return [Out("next", st)]
        if isinstance(t, (ast.Tuple, ast.List)):
            if isinstance(v, (TupleV, ListV)) and len(st.items(v)) == len(t.elts):
                outs = [Out("next", st)]
                for sub, item in zip(t.elts, st.items(v)):
                    outs = [x for o in outs for x in (self.assign_target(sub, item, o.st, node)
                                                      if o.kind == "next" else [o])]
                return outs
            if isinstance(v, OpaqueV):
                for i, sub in enumerate(t.elts):
                    self.assign_target(sub, OpaqueV(f"{v.tag}[{i}]"), st, node)
                return [Out("next", st)]
            if isinstance(v, ObjV) and v.cls.lookup("__iter__") is not None and not getattr(node, "_sa_iter", False):
                # an object that can be unpacked through its own __iter__
                res = []
                for o in self.call_function(v.cls.lookup("__iter__"), [v], {}, st, node):
                    if o.kind != "val":
                        res.append(o)
                    elif isinstance(o.value, (TupleV, ListV)):
                        res.extend(self.assign_target(t, o.value, o.st, node))
                    else:
                        self.unsupported(node, "destructuring of an object whose __iter__ is not a plain sequence")
                return res
            self.unsupported(node, "destructuring")
        if isinstance(t, ast.Attribute):
            def go(base, s2):
                if isinstance(base, ObjV):
                    setter = base.cls.lookup(t.attr + ".setter")
                    if setter is not None and setter.kind == "setter":
                        return self.to_next(self.call_function(setter, [base, v], {}, s2, node))
                    s2.fields(base)[t.attr] = v
                    s2.events.append(("store-field", self.where(node), base.tag, t.attr, v))
                    return [Out("next", s2)]
                if isinstance(base, OpaqueV):
                    s2.events.append(("store-opaque", self.where(node), base.tag, t.attr))
                    return [Out("next", s2)]
                if isinstance(base, ClassV):
                    s2.events.append(("store-class-attr", self.where(node), base.cls.name, t.attr, v))
                    s2.env[f"__classattr__{base.cls.name}.{t.attr}"] = v
                    return [Out("next", s2)]
                self.unsupported(node, f"attribute store on {base!r}")
            return self.bind(self.eval(t.value, st), go)
        if isinstance(t, ast.Subscript):
            def go(base, s2):
                if isinstance(t.slice, ast.Slice):
                    def with_b(bs, s3):
                        lo, hi = bs
                        return self.slice_store(base, lo, hi, v, s3, node)
                    outs = [Out("val", s2, [])]
                    for p in (t.slice.lower, t.slice.upper):
                        def step(acc, s4, p=p):
                            if p is None:
                                return [Out("val", s4, acc + [None])]
                            return self.bind(self.eval(p, s4), lambda x, s5: [Out("val", s5, acc + [x])])
                        outs = self.bind(outs, step)
                    return self.bind(outs, with_b)

                def with_idx(idx, s3):
                    if isinstance(base, ListV):
                        i = self.as_int(idx)
                        if i is None or not i.is_const() or not (0 <= int(i.const) < len(s3.items(base))):
                            self.unsupported(node, "list store index")
                        s3.items(base)[int(i.const)] = v
                        return [Out("next", s3)]
                    if isinstance(base, DictV):
                        s3.items(base)[self.const_key(idx)] = v
                        return [Out("next", s3)]
                    if isinstance(base, OpaqueV):
                        s3.events.append(("store-opaque-item", self.where(node), base.tag))
                        return [Out("next", s3)]
                    self.unsupported(node, f"subscript store on {base!r}")
                return self.bind(self.eval(t.slice, s2), with_idx)
            return self.bind(self.eval(t.value, st), go)
        self.unsupported(node, "assignment target")

    def slice_store(self, base: V, lo, hi, v: V, st: State, node) -> list[Out]:
        if not isinstance(base, BufV):
            self.unsupported(node, f"slice store on {base!r}")
        if isinstance(v, BufV):
            v = SeqV("bytes", st.heap[v.oid]["length"], list(st.heap[v.oid]["pieces"]))
        if not isinstance(v, SeqV):
            if isinstance(v, OpaqueV):
                self.unsupported(node, "slice store of an unknown value")
            return self.raise_(st, "TypeError", node)
        h = st.heap[base.oid]
        lo_e = LinExpr.c(0) if lo is None or isinstance(lo, NoneV) else self.as_int(lo)
        hi_e = h["length"] if hi is None or isinstance(hi, NoneV) else self.as_int(hi)
        st.events.append(("slice-store", self.where(node), lo_e, hi_e, v.length, h["length"], list(st.cons),
                          _pieces_tags(v)))
        # new length (valid for 0 <= lo <= hi <= len): len - (hi - lo) + len(v)
        h["length"] = h["length"] - (hi_e - lo_e) + v.length
        h["pieces"] = [("mutated", h["length"], None)]
        return [Out("next", st)]

    def s_Return(self, s, st):
        if s.value is None:
            return [Out("return", st, NONE)]
        return [Out("return", o.st, o.value) if o.kind == "val" else o for o in self.eval(s.value, st)]

    def s_Raise(self, s, st):
        if s.exc is None:
            return [Out("raise", st, exc="<reraise>", where=(self.where(s), "raise", self.cur_func[-1].short))]
        name = "Exception"
        exc = s.exc.func if isinstance(s.exc, ast.Call) else s.exc
        if isinstance(exc, ast.Name):
            name = exc.id
            ent = self.ix.resolve_name(exc.id, self.cur_func[-1].module) if self.cur_func else None
            if ent and ent[0] == "class":
                name = "cls:" + ent[1].name
        elif isinstance(exc, ast.Attribute):
            name = exc.attr
            t = self.ix.infer(exc, Scope(self.ix, self.cur_func[-1]))
            if t is not None and t[0] == "cls":
                name = "cls:" + t[1].name
        return [Out("raise", st, exc=name, where=(self.where(s), norm(s)[:100], self.cur_func[-1].short))]

    def s_Assert(self, s, st):
        # (python -O removes asserts; as written: a false test raises AssertionError, a true one falls through)
        res = []
        for o in self.eval(s.test, st):
            if o.kind != "val":
                res.append(o)
                continue
            for b, s3 in self.branch(o.value, o.st, s.test):
                if b:
                    res.append(Out("next", s3))
                else:
                    res.append(Out("raise", s3, exc="AssertionError",
                                   where=(self.where(s), norm(s)[:100], self.cur_func[-1].short)))
        return res

    def s_If(self, s, st):
        def go(c, s2):
            res = []
            for b, s3 in self.branch(c, s2, s.test):
                res.extend(self.exec_block(s.body if b else s.orelse, s3))
            return res
        outs = self.eval(s.test, st)
        res = []
        for o in outs:
            if o.kind == "val":
                res.extend(go(o.value, o.st))
            else:
                res.append(o)
        return res

    def s_For(self, s, st):
        def go(it, s2):
            if isinstance(it, GenV):
                return self.for_over_generator(s, it, s2)
            items = self.iter_items(it, s2, s)
            if items is None:
                spec = self.loop_specs.get(id(s))
                if spec is None:
                    spec = self.loop_specs[id(s)] = LoopSpec()
                return spec.run_for(self, s, it, s2)
            outs = [Out("next", s2)]
            broke = []
            for item in items:
                nxt = []
                for o in outs:
                    if o.kind != "next":
                        nxt.append(o)
                        continue
                    for a in self.assign_target(s.target, item, o.st, s):
                        if a.kind != "next":
                            nxt.append(a)
                            continue
                        for b in self.exec_block(s.body, a.st):
                            if b.kind == "break":
                                broke.append(Out("next", b.st))
                            elif b.kind == "continue":
                                nxt.append(Out("next", b.st))
                            else:
                                nxt.append(b)
                outs = nxt
            final = []
            for o in outs:
                if o.kind == "next" and s.orelse:
                    final.extend(self.exec_block(s.orelse, o.st))
                else:
                    final.append(o)
            return final + broke
        res = []
        for o in self.eval(s.iter, st):
            if o.kind == "val":
                res.extend(go(o.value, o.st))
            else:
                res.append(o)
        return res

    def s_While(self, s, st):
        spec = self.loop_specs.get(id(s))
        if spec is None:
            spec = self.loop_specs[id(s)] = LoopSpec()
        return spec.run_while(self, s, st)

    def s_Try(self, s, st):
        outs = self.exec_block(s.body, st)
        res = []
        for o in outs:
            if o.kind == "raise":
                handled = False
                for h in s.handlers:
                    if self.handler_matches(h, o.exc):
                        handled = True
                        if h.name:
                            o.st.env[h.name] = OpaqueV("exception")
                        hres = self.exec_block(h.body, o.st)
                        for ho in hres:
                            if ho.kind == "raise" and ho.exc == "<reraise>":
                                ho.exc = o.exc
                        res.extend(hres)
                        break
                if not handled:
                    res.append(o)
            elif o.kind == "next" and s.orelse:
                res.extend(self.exec_block(s.orelse, o.st))
            else:
                res.append(o)
        if s.finalbody:
            fin = []
            for o in res:
                for fo in self.exec_block(s.finalbody, o.st):
                    if fo.kind == "next":
                        fin.append(Out(o.kind, fo.st, o.value, o.exc, o.where))
                    else:
                        fin.append(fo)
            res = fin
        return res

    def handler_matches(self, h: ast.ExceptHandler, exc: str) -> bool:
        if h.type is None:
            return True
        names = []
        for t in (h.type.elts if isinstance(h.type, ast.Tuple) else [h.type]):
            names.append(t.id if isinstance(t, ast.Name) else (t.attr if isinstance(t, ast.Attribute) else "?"))
        chain = []
        cur = exc
        if cur.startswith("cls:"):
            cname = cur[4:]
            cls = self.ix.find_class(cname)
            chain.append(cname)
            if cls is not None:
                for c in cls.mro():
                    chain.append(c.name.split(".")[-1])
                    for b in c.bases:
                        if isinstance(b, str):
                            chain.append(b.split(".")[-1])
            cur = chain[-1] if chain else "Exception"
        while cur:
            chain.append(cur.split(".")[-1] if cur != "struct.error" else "error")
            chain.append(cur)
            cur = EXC_PARENTS.get(cur)
        return any(n in chain for n in names)

    def s_With(self, s, st):
        if len(s.items) == 1:
            item = s.items[0]
            res = []
            for o in self.eval(item.context_expr, st):
                if o.kind != "val":
                    res.append(o)
                    continue
                if not isinstance(o.value, _FileV):
                    self.unsupported(s, "with statement over something that is not a file")
                if item.optional_vars is not None:
                    if not isinstance(item.optional_vars, ast.Name):
                        self.unsupported(s, "with target")
                    o.st.env[item.optional_vars.id] = o.value
                res.extend(self.exec_block(s.body, o.st))
            return res
        self.unsupported(s, "with statement")

    def s_FunctionDef(self, s, st):
        f = self.cur_func[-1]
        if s.name in f.nested:
            snap = dict(st.env)
            fv = FuncV(f.nested[s.name], closure=snap)
            snap[s.name] = fv  # the function can refer to itself
            st.env[s.name] = fv
            return [Out("next", st)]
        self.unsupported(s, "nested def")

    def s_Break(self, s, st):
        return [Out("break", st)]

    def s_Continue(self, s, st):
        return [Out("continue", st)]


class _PartialV(V):
    """functools.partial(fn, *args, **kwargs)"""

    def __init__(self, fn, args, kwargs):
        self.fn, self.args, self.kwargs = fn, list(args), dict(kwargs)

    def __repr__(self):
        return f"Partial({self.fn!r})"


class _BoundBuiltin(V):
    def __init__(self, recv, attr):
        self.recv, self.attr = recv, attr

    def __repr__(self):
        return f"<builtin method {self.attr} of {self.recv!r}>"


class _FileV(V):
    def __init__(self, mode):
        self.mode = mode


class _FdV(V):
    """A file descriptor from os.open(path, flags)."""
    def __init__(self, path, flags):
        self.path, self.flags = path, flags


def _tag(v) -> str:
    if isinstance(v, OpaqueV):
        return v.tag
    if isinstance(v, ObjV):
        return v.tag
    if isinstance(v, IntV):
        return repr(v.e)
    if isinstance(v, SeqV):
        return f"{v.kind}[{'+'.join(str(p[0]) for p in v.pieces)}]"
    return repr(v)


def _base_tag(v: SeqV):
    return "+".join(str(p[0]) if not (p[0] == "param") else f"param:{p[2]}" for p in v.pieces) or "empty"


def _pieces_tags(v: SeqV):
    return [(p[0], p[2] if p[0] in ("param", "const", "str-of") else None) for p in v.pieces]


def record_fields(cls):
    """('namedtuple' | 'dataclass', [(field, default expression or None)]) for a typing.NamedTuple / @dataclass class."""
    is_nt = any(isinstance(b, str) and b.split(".")[-1] == "NamedTuple" for b in cls.bases)
    is_dc = any(ast.unparse(d).split("(")[0].split(".")[-1] == "dataclass" for d in cls.node.decorator_list)
    if not (is_nt or is_dc):
        return None
    fields = []
    for st_ in cls.node.body:
        if isinstance(st_, ast.AnnAssign) and isinstance(st_.target, ast.Name):
            if "ClassVar" in ast.unparse(st_.annotation):
                continue
            fields.append((st_.target.id, st_.value))
    return ("namedtuple" if is_nt else "dataclass"), fields


def sym_bool(st: State, name: str) -> BoolV:
    """A symbolic boolean input, encoded as an integer symbol in {0, 1} so that all its uses agree."""
    b = LinExpr.sym(name)
    st.add(ge(b, 0))
    st.add(le(b, 1))
    return BoolV(("c", ge(b, 1)))


# ---------------------------------------------------------------------------------------------------- loops

def _assigned_names(stmts) -> list[str]:
    out = []
    for s in stmts:
        for n in ast.walk(s):
            if isinstance(n, ast.Name) and isinstance(n.ctx, ast.Store) and n.id not in out:
                out.append(n.id)
    return out


class LoopSpec:
    """Handling of loops whose trip count is symbolic.

    while-loops:  (1) the first `unroll` iterations are executed exactly (their paths give genuine witnesses);
                  (2) an arbitrary iteration is executed from a havocked loop head under the candidate invariants that
                      survive a Houdini fixpoint: every candidate holds at entry and is preserved by one abstract
                      iteration on every path.  Templates over the loop-carried integer variables v, w:
                      v >= 0, v <= 0, v >= v0, v <= v0, v + w == v0 + w0, v - w == v0 - w0  (v0 = value at entry).
    for i in range(lo, hi) with symbolic bounds: one arbitrary iteration with lo <= i <= hi - 1, plus the exit state.
    States are tagged in `trace` with ('loop', 'exact', k) or ('loop', 'inductive').
    """

    def __init__(self, unroll: int = 3):
        self.unroll = unroll
        self.report: dict = {}

    # ------------------------------------------------------------------ while
    def run_while(self, it: Interp, node: ast.While, st: State) -> list[Out]:
        if node.orelse:
            it.unsupported(node, "while/else")
        outs: list[Out] = []
        # (1) exact prefix
        cur = [st.clone()]
        for k in range(self.unroll):
            nxt = []
            for s in cur:
                for o in it.eval(node.test, s):
                    if o.kind != "val":
                        outs.append(o)
                        continue
                    for b, s2 in it.branch(o.value, o.st, node.test):
                        if not b:
                            s2.trace.append(("loop", "exact", k))
                            s2.events.append(("loop-exit", it.where(node), {v: s2.env.get(v) for v in
                                                                          _assigned_names(node.body)},
                                              list(s2.cons), "exact"))
                            outs.append(Out("next", s2))
                            continue
                        s2.trace.append(("loop", "exact-iter", k))
                        head_vals = {v: s2.env.get(v) for v in _assigned_names(node.body)}
                        for bo in it.exec_block(node.body, s2):
                            if bo.kind in ("next", "continue"):
                                bo.st.events.append(("iteration-end", it.where(node), head_vals,
                                                     {v: bo.st.env.get(v) for v in head_vals}, list(bo.st.cons),
                                                     "exact"))
                                nxt.append(bo.st)
                            elif bo.kind == "break":
                                bo.st.trace.append(("loop", "exact", k))
                                outs.append(Out("next", bo.st))
                            else:
                                outs.append(bo)
            cur = nxt
            if not cur:
                break
        exact_complete = not cur  # the loop always terminates within `unroll` iterations
        if exact_complete:
            self.report = {"mode": "fully unrolled", "iterations": self.unroll}
            return outs
        # (2) inductive part
        modified = _assigned_names(node.body)
        carried = [v for v in modified if v in st.env and isinstance(st.env[v], IntV)]
        head = st.clone()
        head.trace.append(("loop", "inductive"))
        syms = {}
        entry = {}
        for v in modified:
            if v in carried:
                syms[v] = head.new_sym(v + "@head", f"value of {v} at the loop head (arbitrary iteration)")
                entry[v] = st.env[v].e
                head.env[v] = IntV(syms[v])
            elif v in head.env:
                head.env[v] = OpaqueV(f"{v}@head")
        cands: list[tuple[str, Callable]] = []

        def mk(desc, fn):
            cands.append((desc, fn))
        for v in carried:
            mk(f"{v} >= 0", lambda val, v=v: ge(val[v], 0))
            mk(f"{v} <= 0", lambda val, v=v: le(val[v], 0))
            mk(f"{v} >= {v}@entry", lambda val, v=v: ge(val[v], entry[v]))
            mk(f"{v} <= {v}@entry", lambda val, v=v: le(val[v], entry[v]))
        for i, v in enumerate(carried):
            for w in carried[i + 1:]:
                mk(f"{v} + {w} == const", lambda val, v=v, w=w: eq(val[v] + val[w], entry[v] + entry[w]))
                mk(f"{v} - {w} == const", lambda val, v=v, w=w: eq(val[v] - val[w], entry[v] - entry[w]))
        # a carried variable against the values the loop does not change (a position against the total, ...)
        fixed = [(u, x.e) for u, x in st.env.items() if isinstance(x, IntV) and u not in modified
                 and not u.startswith("__")][:8]
        for v in carried:
            for u, ue in fixed:
                mk(f"{v} <= {u}", lambda val, v=v, ue=ue: le(val[v], ue))
                mk(f"{v} >= {u}", lambda val, v=v, ue=ue: ge(val[v], ue))
        # candidates must hold at entry
        alive = [(d, fn) for d, fn in cands if entails(st.cons, fn(entry))]
        rounds = 0
        while True:
            rounds += 1
            h = head.clone()
            feasible = True
            for d, fn in alive:
                if not h.add(fn(syms)):
                    feasible = False
            if not feasible:
                break
            failed = set()
            for o in it.eval(node.test, h):
                if o.kind != "val":
                    continue
                for b, s2 in it.branch(o.value, o.st, node.test):
                    if not b:
                        continue
                    for bo in it.exec_block(node.body, s2):
                        if bo.kind not in ("next", "continue"):
                            continue
                        newval = {}
                        okv = True
                        for v in carried:
                            nv = bo.st.env.get(v)
                            if not isinstance(nv, IntV):
                                okv = False
                                break
                            newval[v] = nv.e
                        for d, fn in alive:
                            if not okv or not entails(bo.st.cons, fn(newval)):
                                failed.add(d)
            if not failed:
                break
            alive = [(d, fn) for d, fn in alive if d not in failed]
            if rounds > 20:
                raise Unsupported("invariant inference did not converge")
        self.report = {"mode": "inductive", "carried": carried, "invariants": [d for d, _ in alive],
                       "candidates": len(cands), "rounds": rounds, "unrolled_exactly": self.unroll}
        h = head.clone()
        for d, fn in alive:
            h.add(fn(syms))
        h.events.append(("loop-invariants", it.where(node), [d for d, _ in alive]))
        for o in it.eval(node.test, h):
            if o.kind != "val":
                outs.append(o)
                continue
            for b, s2 in it.branch(o.value, o.st, node.test):
                if not b:
                    s2.events.append(("loop-exit", it.where(node), {v: s2.env.get(v) for v in modified},
                                      list(s2.cons), "inductive"))
                    outs.append(Out("next", s2))
                    continue
                head_vals = {v: s2.env.get(v) for v in modified}
                for bo in it.exec_block(node.body, s2):
                    if bo.kind in ("next", "continue"):
                        bo.st.events.append(("iteration-end", it.where(node), head_vals,
                                             {v: bo.st.env.get(v) for v in modified}, list(bo.st.cons), "inductive"))
                        # the arbitrary iteration's events must reach the caller: emit them on a path that is then
                        # cut (it is subsumed by the loop head state), via a dedicated outcome kind
                        outs.append(Out("loop-iteration", bo.st))
                    elif bo.kind == "break":
                        outs.append(Out("next", bo.st))
                    else:
                        outs.append(bo)
        return outs

    # ------------------------------------------------------------------ for over a symbolic range
    def run_for(self, it: Interp, node: ast.For, iterable: V, st: State) -> list[Out]:
        outs: list[Out] = []
        modified = _assigned_names(node.body) + _assigned_names([ast.Expr(value=node.target)] if False else [])
        tnames = [n.id for n in ast.walk(node.target) if isinstance(n, ast.Name)]
        if isinstance(iterable, RangeV):
            lo, hi = iterable.lo, iterable.hi
            # zero iterations
            s0 = st.clone()
            ok0 = s0.add(le(hi, lo))
            for sname in (hi - lo).symbols():
                if (hi - lo).terms.get((sname,)) in (1, -1) and ok0:
                    ok0 = s0.nonneg(sname, lo - hi) and not infeasible_cached(s0.cons)
            if ok0:
                s0.trace.append(("loop", "for-zero"))
                s0.events.append(("for-marker", id(node), "zero", lo, hi))
                outs.append(Out("next", s0))
            s1 = st.clone()
            if s1.add(gt(hi, lo)):
                i = s1.new_sym(tnames[0] + "@iter" if tnames else "i@iter", "loop index of an arbitrary iteration")
                iname = next(iter(i.symbols()))
                s1.nonneg(iname, i - lo)
                s1.nonneg(iname, hi - 1 - i)
                s1.trace.append(("loop", "for-arbitrary"))
                for v in modified:
                    if v in s1.env and v not in tnames:
                        s1.env[v] = OpaqueV(f"{v}@loop")
                s1.events.append(("for-range", it.where(node), i, lo, hi, id(node)))
                for a in it.assign_target(node.target, IntV(i), s1, node):
                    for bo in it.exec_block(node.body, a.st):
                        if bo.kind in ("next", "continue"):
                            outs.append(Out("loop-iteration", bo.st))
                        elif bo.kind == "break":
                            outs.append(Out("next", bo.st))
                        else:
                            outs.append(bo)
                # state after >= 1 iterations
                s2 = st.clone()
                s2.add(gt(hi, lo))
                for v in modified:
                    if v in s2.env and v not in tnames:
                        s2.env[v] = OpaqueV(f"{v}@after-loop")
                if tnames:
                    s2.env[tnames[0]] = IntV(hi - 1)
                s2.trace.append(("loop", "for-after"))
                s2.events.append(("for-marker", id(node), "after", lo, hi))
                outs.append(Out("next", s2))
            return outs
        # opaque iterable: zero or more iterations with opaque items
        s0 = st.clone()
        s0.trace.append(("loop", "for-zero"))
        outs.append(Out("next", s0))
        s1 = st.clone()
        s1.trace.append(("loop", "for-arbitrary"))
        for v in modified:
            if v in s1.env and v not in tnames:
                s1.env[v] = OpaqueV(f"{v}@loop")
        tag = iterable.tag if isinstance(iterable, OpaqueV) else repr(iterable)
        for a in it.assign_target(node.target, OpaqueV(f"item-of({tag})"), s1, node):
            for bo in it.exec_block(node.body, a.st):
                if bo.kind in ("next", "continue"):
                    outs.append(Out("loop-iteration", bo.st))
                elif bo.kind == "break":
                    outs.append(Out("next", bo.st))
                else:
                    outs.append(bo)
        s2 = st.clone()
        for v in modified:
            if v in s2.env and v not in tnames:
                s2.env[v] = OpaqueV(f"{v}@after-loop")
        s2.trace.append(("loop", "for-after"))
        outs.append(Out("next", s2))
        return outs
