"""Two-way self-validation of the rules (thorough tier, and `python -m sa.selftest` in development).

Every variant is a small rewrite of a scratch copy of /repo/src/dliswriter (in a tempfile.mkdtemp directory that is
removed before exit).  `expect` names the rule that must fire (seeded break) or is 'silent' (behaviour-preserving twin:
no rule of the property may fire).  A variant whose `old` text is not present on the current tree is skipped and
counted - it says nothing either way.  Nothing from the variants is ever written to /repo.
"""

from __future__ import annotations

import importlib
import os
import shutil
import sys
import tempfile
import traceback
from concurrent.futures import ProcessPoolExecutor

from . import AnalysisError


def _apply(root: str, edits) -> bool:
    done = []
    import subprocess
    for rel, old, new in edits:
        if rel == "@patch":
            # `old` = path of a unified diff against the repository root, `new` = True to apply it in reverse
            top = os.path.dirname(os.path.dirname(root))  # <tmp>/src/dliswriter -> <tmp>
            cmd = ["patch", "-p1", "-s", "-f", "-d", top, "-i", old] + (["-R"] if new else [])
            r = subprocess.run(cmd, capture_output=True, text=True)
            if r.returncode != 0:
                return False
            continue
        path = os.path.join(root, rel)
        if not os.path.exists(path):
            return False
        with open(path, encoding="utf-8") as f:
            s = f.read()
        if s.count(old) != 1:
            return False
        done.append((path, s))
        with open(path, "w", encoding="utf-8") as f:
            f.write(s.replace(old, new))
    return True


def _run_variant(args):
    prop, vid, edits, expect, pkg_dir = args
    tmp = tempfile.mkdtemp(prefix="sa_selftest_")
    try:
        dst = os.path.join(tmp, "src", "dliswriter")
        shutil.copytree(pkg_dir, dst, ignore=shutil.ignore_patterns("__pycache__"))
        if not _apply(dst, edits):
            return (vid, "skipped", "edit does not apply on this tree", [])
        # the variant must still be valid Python (it must "compile")
        import ast
        for rel, _, _ in edits:
            if rel == "@patch":
                continue
            with open(os.path.join(dst, rel), encoding="utf-8") as f:
                ast.parse(f.read())
        from .index import Index
        from .callgraph import CallGraph
        from .report import Check
        mod = importlib.import_module(f"sa.props.{prop.lower()}")
        try:
            ix = Index(dst)
            cg = CallGraph(ix)
            chk = Check(prop, "quick", 0, ix, cg, quiet=True)
            mod.run(chk)
            chk.raise_deferred()
        except AnalysisError as exc:
            return (vid, "analysis-error", str(exc), [])
        fired = sorted({o.rule for o in chk.violations()})
        keys = [f"{o.rule}[{o.key}]" for o in chk.violations()]
        # known findings of the real tree do not count as new fires
        from .report import load_known
        known = {(k["property"], k["rule"], k["key"]) for k in load_known().get("known", [])}
        new = [o for o in chk.violations() if (prop, o.rule, o.key) not in known]
        fired = sorted({o.rule for o in new})
        keys = [f"{o.rule}[{o.key}]" for o in new]
        return (vid, "ran", fired, keys)
    except Exception as exc:  # noqa: BLE001
        return (vid, "error", f"{type(exc).__name__}: {exc}\n{traceback.format_exc()}", [])
    finally:
        shutil.rmtree(tmp, ignore_errors=True)


def run_variants(prop: str, pkg_dir: str, jobs: int = None):
    from .variants import VARIANTS, seeded_variants
    todo = [v for v in VARIANTS if v["prop"] == prop] + seeded_variants(prop)
    args = [(prop, v["id"], v["edits"], v["expect"], pkg_dir) for v in todo]
    results = {}
    if not args:
        return todo, results
    jobs = jobs or min(16, len(args), os.cpu_count() or 1)
    if jobs <= 1:
        for a in args:
            r = _run_variant(a)
            results[r[0]] = r
    else:
        with ProcessPoolExecutor(max_workers=jobs) as ex:
            for r in ex.map(_run_variant, args):
                results[r[0]] = r
    return todo, results


def judge(todo, results, base_keys=frozenset()):
    """Return (summary dict, list of failures).  `base_keys`: what the unmodified current tree itself raises - a twin is
    silent when it raises nothing beyond that."""
    summary = {"variants": len(todo), "breaks_fired": 0, "twins_silent": 0, "skipped": 0, "failed": []}
    details = []
    for v in todo:
        vid, status, fired, keys = results[v["id"]]
        exp = v["expect"]
        if status == "skipped":
            summary["skipped"] += 1
            details.append({"id": vid, "outcome": "skipped"})
            continue
        if status in ("error",):
            summary["failed"].append(f"{vid}: checker crashed: {fired}")
            continue
        if exp == "silent":
            if status == "ran" and base_keys:
                keys = [k for k in keys if k not in base_keys]
                fired = sorted({k.split("[", 1)[0] for k in keys})
            if status == "ran" and not fired:
                summary["twins_silent"] += 1
                details.append({"id": vid, "expect": "silent", "outcome": "silent", "what": v.get("what", "")})
            elif status == "analysis-error":
                # leaving the modelled subset is allowed for a twin (exit 2, never a VIOLATION) but is reported
                summary["twins_silent"] += 1
                details.append({"id": vid, "expect": "silent", "outcome": "analysis-error (no violation)",
                                "what": v.get("what", ""), "note": fired})
            else:
                summary["failed"].append(f"{vid}: behaviour-preserving twin raised {keys}")
        else:
            exps = exp if isinstance(exp, (list, tuple)) else [exp]
            if status == "ran" and (any(e in fired for e in exps) or (exps == ["any"] and fired)):
                summary["breaks_fired"] += 1
                details.append({"id": vid, "expect": exp, "outcome": "fired", "reported": keys[:3],
                                "what": v.get("what", "")})
            else:
                summary["failed"].append(f"{vid}: seeded break expected {exp}, got {status} {fired}")
    summary["details"] = details
    return summary


def run_for(chk, prop: str):
    import sa
    todo, results = run_variants(prop, sa.PKG_DIR)
    base_new = chk.new_violations()
    summary = judge(todo, results, frozenset(f"{o.rule}[{o.key}]" for o in base_new))
    # the value-flow normal form itself: equivalent snippets get equal summaries, different ones do not
    from . import terms_check
    tfail = terms_check.run()
    summary["normal_form_pairs"] = {"checked": len(terms_check.EQUIVALENT) + len(terms_check.DIFFERENT) +
                                    len(terms_check.INLINE_EQUIVALENT), "failed": len(tfail)}
    summary["failed"] = list(summary["failed"]) + [f"normal form: {t[:120]}" for t in tfail]
    chk.selfcheck = summary
    if summary["failed"] and base_new:
        # the tree under test violates the property: that verdict stands (exit 1); what the self-validation could not
        # confirm on top of a violating tree is recorded, not raised
        chk.note("self-validation on a violating tree: " + "; ".join(summary["failed"][:3]))
        return
    if summary["failed"]:
        raise AnalysisError("self-validation failed (the checker is broken for this tree): " +
                            "; ".join(summary["failed"][:5]))


def main(argv=None):
    import sa
    props = [a.upper() for a in (argv or sys.argv[1:])]
    from .variants import VARIANTS
    if not props:
        props = sorted({v["prop"] for v in VARIANTS})
    rc = 0
    for p in props:
        todo, results = run_variants(p, sa.PKG_DIR)
        s = judge(todo, results)
        print(f"{p}: variants={s['variants']} breaks_fired={s['breaks_fired']} twins_silent={s['twins_silent']} "
              f"skipped={s['skipped']} failed={len(s['failed'])}")
        for f in s["failed"]:
            print("   FAIL", f)
            rc = 1
        for d in s["details"]:
            if d["outcome"] in ("skipped",) or "analysis-error" in d["outcome"]:
                print("   note", d)
    return rc


if __name__ == "__main__":
    sys.exit(main())
