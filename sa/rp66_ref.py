"""Reference tables copied from the RP66 V1 standard (facts of the file format, independent of dliswriter)."""

# Appendix B: representation code -> (name, fixed size in bytes or None for variable)
REPR_CODES = {
    1: ("FSHORT", 2), 2: ("FSINGL", 4), 3: ("FSING1", 8), 4: ("FSING2", 12), 5: ("ISINGL", 4), 6: ("VSINGL", 4),
    7: ("FDOUBL", 8), 8: ("FDOUB1", 16), 9: ("FDOUB2", 24), 10: ("CSINGL", 8), 11: ("CDOUBL", 16),
    12: ("SSHORT", 1), 13: ("SNORM", 2), 14: ("SLONG", 4), 15: ("USHORT", 1), 16: ("UNORM", 2), 17: ("ULONG", 4),
    18: ("UVARI", None), 19: ("IDENT", None), 20: ("ASCII", None), 21: ("DTIME", 8), 22: ("ORIGIN", None),
    23: ("OBNAME", None), 24: ("OBJREF", None), 25: ("ATTREF", None), 26: ("STATUS", 1), 27: ("UNITS", None),
}

# big-endian two's complement / IEEE encodings that `struct` implements exactly
STRUCT_FORMATS = {
    "SSHORT": ">b", "SNORM": ">h", "SLONG": ">i", "USHORT": ">B", "UNORM": ">H", "ULONG": ">I",
    "FSINGL": ">f", "FDOUBL": ">d", "STATUS": ">B",
}

# numpy dtype name -> representation code name (channel sample types the writer supports)
DTYPE_CODES = {
    "int8": "SSHORT", "int16": "SNORM", "int32": "SLONG", "uint8": "USHORT", "uint16": "UNORM", "uint32": "ULONG",
    "float32": "FSINGL", "float64": "FDOUBL",
}
DTYPE_SIZES = {"int8": 1, "int16": 2, "int32": 4, "uint8": 1, "uint16": 2, "uint32": 4, "float32": 4, "float64": 8}

# Appendix A: EFLR type number -> name, and set type -> EFLR type name
EFLR_TYPES = {0: "FHLR", 1: "OLR", 2: "AXIS", 3: "CHANNL", 4: "FRAME", 5: "STATIC", 6: "SCRIPT", 7: "UPDATE", 8: "UDI",
              9: "LNAME", 10: "SPEC", 11: "DICT"}
IFLR_TYPES = {0: "FDATA", 1: "NOFMT"}
SET_TYPE_TO_EFLR = {
    "FILE-HEADER": "FHLR", "ORIGIN": "OLR", "WELL-REFERENCE": "OLR", "AXIS": "AXIS", "CHANNEL": "CHANNL",
    "FRAME": "FRAME", "PATH": "FRAME", "CALIBRATION": "STATIC", "CALIBRATION-COEFFICIENT": "STATIC",
    "CALIBRATION-MEASUREMENT": "STATIC", "COMPUTATION": "STATIC", "EQUIPMENT": "STATIC", "GROUP": "STATIC",
    "PARAMETER": "STATIC", "PROCESS": "STATIC", "SPLICE": "STATIC", "TOOL": "STATIC", "ZONE": "STATIC",
    "COMMENT": "SCRIPT", "MESSAGE": "SCRIPT", "UPDATE": "UPDATE", "NO-FORMAT": "UDI", "LONG-NAME": "LNAME",
}

# section 3.2.2.1: component descriptor - role (bits 8-6) and format bits
ROLE_ATTRIB, ROLE_ABSATR, ROLE_OBJECT, ROLE_SET = 0b001, 0b000, 0b011, 0b111
# attribute characteristics bits, most significant first: Label, Count, Representation code, Units, Value
ATTR_BITS = ("L", "C", "R", "U", "V")
SET_DESCRIPTOR_TYPE_NAME = 0xF8   # set, type + name
SET_DESCRIPTOR_TYPE = 0xF0        # set, type only
OBJECT_DESCRIPTOR_NAME = 0x70     # object, name
ABSENT_ATTRIBUTE = 0x00

# UVARI: 1 byte 0xxxxxxx (0..127), 2 bytes 10xxxxxx xxxxxxxx (128..16383), 4 bytes 11xxxxxx ... (16384..2^30-1)
UVARI = [(0, 127, 1, 0), (128, 16383, 2, 0x8000), (16384, 2 ** 30 - 1, 4, 0xC0000000)]
