"""Write-path store inventory with value provenance (E5 on top of the value-flow normal form).

For every function reachable from DLISFile.write, every store into an object that outlives the write (a field of a
specification object, a module-level object, a container held in such a field) is listed with

    key       <RootClass>.<path>.<field>        - what is written, independent of which function does the writing:
                                                  a store made by a helper through a parameter is attributed to the
                                                  object its callers pass in (resolved through the call graph);
    derived   whether the stored value is computed from an argument of this write() (data, row window, chunk sizes,
              file name) - by a package-wide fixpoint over parameters, fields of per-write objects and returns;
    guard     the path condition of the store (literals in normal form).

Nothing here is executed; provenance is a may-analysis (a value is 'derived' if any of its leaves may be).
"""

from __future__ import annotations

import ast
from typing import Optional

from . import AnalysisError
from .index import FuncInfo
from .terms import (SELF, TermEval, Summary, subterms, substitute, attr_stores, call_name, is_call, pp, alternatives)

MUTATORS = {"append", "extend", "insert", "pop", "remove", "clear", "update", "setdefault", "sort", "reverse", "add",
            "discard", "popitem", "__setitem__", "__delitem__", "fill", "resize", "byteswap"}


class PStore:
    """One store into a persistent object."""
    __slots__ = ("key", "field", "base", "value", "derived", "pc", "func", "site", "how", "effect")

    def __init__(self, key, field, base, value, derived, pc, func, site, how, effect):
        self.key, self.field, self.base, self.value, self.derived = key, field, base, value, derived
        self.pc, self.func, self.site, self.how, self.effect = pc, func, site, how, effect

    @property
    def where(self):
        return self.effect.where

    def __repr__(self):
        return f"<PStore {self.key} {'DERIVED ' if self.derived else ''}in {self.func.short} ({self.how})>"


class WritePathStores:
    def __init__(self, ix, cg, te: TermEval, entry, per_write_classes: set, sources: Optional[dict] = None,
                 source_term=None):
        """entry: a function (its parameters are the provenance sources unless `sources` is given) or a list of
        functions; source_term: optional predicate on terms - a term satisfying it is a provenance source itself (used
        for the nondeterminism inventory, where the sources are calls like random / now)."""
        self.ix, self.cg, self.te = ix, cg, te
        entries = entry if isinstance(entry, (list, tuple)) else [entry]
        self.entry = entries[0]
        self.per_write = per_write_classes
        self.source_term = source_term
        self.reach = [f for f in cg.reachable(list(entries)) if isinstance(f.node, (ast.FunctionDef, ast.AsyncFunctionDef,
                                                                                  ast.Lambda))]
        self.reach_set = set(self.reach)
        self.derived_params: dict = {f: set() for f in self.reach}
        src = sources if sources is not None else {entries[0]: set(entries[0].param_names[1:])}
        for f, ps in src.items():
            self.derived_params.setdefault(f, set()).update(ps)
        self.derived_fields: set = set()   # (class name, field) of per-write objects holding write-derived values
        self._derived_field_names: set = set()
        self._self_derived_names: set = set()
        self._persistent_field_names: set = set()
        for c in ix.classes.values() if hasattr(ix, "classes") else []:
            pass
        for f in ix.functions.values():
            c = f.cls
            if c is not None and not any(k.name in per_write_classes for k in c.mro()):
                for n in ast.walk(f.node):
                    if isinstance(n, ast.Attribute) and isinstance(n.ctx, ast.Store) and \
                            isinstance(n.value, ast.Name) and n.value.id in ("self", "cls"):
                        self._persistent_field_names.add(n.attr)
                self._persistent_field_names |= set(c.class_assigns)
        self.derived_returns: set = set()  # functions whose return value is write-derived whatever the arguments
        self._callers: dict = {}
        self._fix()
        self.stores: list[PStore] = []
        self._collect()

    # ---------------------------------------------------------------------------------------------- provenance
    def is_per_write(self, f: FuncInfo) -> bool:
        c = f.cls
        if c is None and f.parent is not None:
            c = f.parent.cls
        return c is not None and any(k.name in self.per_write for k in c.mro())

    def is_derived(self, t, f: FuncInfo) -> bool:
        if not isinstance(t, tuple):
            return False
        dp = self.derived_params.get(f, set())
        for x in subterms(t):
            k = x[0]
            if self.source_term is not None and self.source_term(x):
                return True
            if k == "param" and x[1].lstrip("*") in dp:
                return True
            if k == "free":
                g = f.parent
                while g is not None:
                    if x[1] in self.derived_params.get(g, set()):
                        return True
                    env = self.te.summary(g).final_env
                    if x[1] in env and env[x[1]] != x and self.is_derived(env[x[1]], g):
                        return True
                    g = g.parent
            if k == "attr" and self._field_derived(x, f):
                return True
            if k == "call" and x in self.te.summary(f).precise:
                for g in self._targets(x, f):
                    if g in self.derived_returns:
                        return True
        return False

    def _owner_class(self, f):
        while f.cls is None and f.parent is not None:
            f = f.parent
        return f.cls

    def _field_derived(self, x, f) -> bool:
        """Is the field read x = obj.name one that holds a write-derived value?  Fields are recorded per class of a
        per-write object; a read through `self` is matched by class, any other read by name unless a specification
        class has a field of the same name (then the read is taken to be of that, non-derived, field)."""
        name = x[2]
        if x[1] == SELF:
            if name in self._self_derived_names:
                c = self._owner_class(f)
                if c is not None and any((k.name, name) in self.derived_fields for k in c.mro()):
                    return True
        else:
            if name in self._derived_field_names and name not in self._persistent_field_names:
                return True
        # a property whose getter returns a derived value
        for g in self.te.summary(f).props.get(x, []):
            if g in self.derived_returns:
                return True
        return False

    def _targets(self, call_term, f):
        return self.te.summary(f).calls.get(call_term, [])

    def _fix(self):
        te = self.te
        changed = True
        rounds = 0
        while changed:
            changed = False
            rounds += 1
            if rounds > 50:
                raise AnalysisError("provenance fixpoint does not converge")
            for f in self.reach:
                s = te.summary(f)
                # parameters of callees
                for c in s.all_calls():
                    for g in s.calls.get(c, []):
                        if g not in self.derived_params:
                            self.derived_params[g] = set()
                        amap = te._bind_args(g, c)
                        if amap is None:
                            # *args / **kwargs at the call: every parameter may receive any argument
                            if any(self.is_derived(a, f) for a in c[2]) or any(self.is_derived(v, f) for _, v in c[3]):
                                new = set(g.param_names) - self.derived_params[g] - {"self", "cls"}
                                if new:
                                    self.derived_params[g] |= new
                                    changed = True
                            continue
                        self._callers.setdefault(g, set()).add(f)
                        bound_recv = g.param_names[0] if (g.cls is not None and g.parent is None and
                                                          g.kind != "staticmethod" and g.param_names) else None
                        for p, v in amap.items():
                            if p == bound_recv:
                                # the receiver is an object, not a value: what it holds is tracked per field (an object
                                # reached through a write-derived container - the record generator - is not itself
                                # computed from the arguments of write)
                                continue
                            if p not in self.derived_params[g] and self.is_derived(v, f):
                                self.derived_params[g].add(p)
                                changed = True
                # fields of objects (per-write and persistent alike) that receive derived values
                c = self._owner_class(f)
                if c is not None and f.kind != "setter" and f.name != "__setattr__":
                    for obj, key, val, e in attr_stores(s):
                        if obj == SELF and key[0] == "const" and (c.name, key[1]) not in self.derived_fields \
                                and self.is_derived(val, f):
                            self.derived_fields.add((c.name, key[1]))
                            self._self_derived_names.add(key[1])
                            if self.is_per_write(f):
                                self._derived_field_names.add(key[1])
                            changed = True
                # returns
                if f not in self.derived_returns:
                    saved = self.derived_params.get(f, set())
                    self.derived_params[f] = set()
                    try:
                        r = any(self.is_derived(t, f) for _, t, _ in s.returns) or \
                            any(self.is_derived(t, f) for _, t, _, _ in s.yields)
                    finally:
                        self.derived_params[f] = saved
                    if r:
                        self.derived_returns.add(f)
                        changed = True

    # ---------------------------------------------------------------------------------------------- inventory
    def _root(self, t):
        path = []
        while True:
            if t[0] == "attr":
                path.append("." + t[2])
                t = t[1]
            elif t[0] == "sub":
                path.append("[*]")
                t = t[1]
            elif t[0] == "elem":
                path.append("[*]")
                t = t[1]
            elif t[0] == "call" and t[1][0] == "attr" and t[1][2] in ("values", "items", "keys", "get", "__getitem__"):
                t = t[1][1]
            else:
                break
        return t, "".join(reversed(path))

    def _classify(self, base, f: FuncInfo, depth=0):
        """-> list of (persistent?, key prefix, description of how it was resolved)"""
        root, path = self._root(base)
        if root[0] == "ite":
            out = []
            for _, alt in alternatives(root):
                for p, k, h in self._classify(alt, f, depth):
                    out.append((p, k + path, h))
            return out
        if root[0] in ("tuple", "list"):
            out = []
            for x in root[1]:
                for p, k, h in self._classify(x, f, depth):
                    out.append((p, k + path.replace("[*]", "", 1), h))
            return out
        if root == SELF or (root[0] == "param" and root[1] in ("self", "cls")):
            owner = f
            while owner.cls is None and owner.parent is not None:
                owner = owner.parent
            cname = owner.cls.name if owner.cls is not None else "?"
            return [(not self.is_per_write(owner), cname + path, "self")]
        if root[0] == "global":
            return [(True, root[1] + path, "module-level object")]
        if root[0] in ("param", "free"):
            name = root[1]
            g = f
            if root[0] == "free":
                # a closure variable: its value in the enclosing function
                g = f.parent
                while g is not None:
                    env = self.te.summary(g).final_env
                    if name in g.param_names:
                        return self._via_callers(("param", name), path, g, depth)
                    if name in env and env[name] != root:
                        return [(p, k + path, h) for p, k, h in self._classify(env[name], g, depth)]
                    g = g.parent
                return [(True, f"<closure {name}>" + path, "unresolved closure variable")]
            return self._via_callers(root, path, f, depth)
        if root[0] == "call":
            tg = self._targets(root, f)
            nm = call_name(root) or "?"
            if tg and not any(isinstance(getattr(g, "node", None), ast.FunctionDef) for g in tg):
                return [(False, "", "fresh object")]
            if not tg:
                # an external call (numpy, builtins, constructors of external classes) returns a fresh object unless it
                # is a known accessor
                if nm in ("getattr",):
                    return [(p, k + ".<dynamic>" + path, h) for p, k, h in self._classify(root[2][0], f, depth)]
                return [(False, "", "fresh object")]
            # a package function: a constructor gives a fresh object, anything else may hand back a persistent one
            if all(g.name == "__init__" for g in tg):
                return [(False, "", "fresh object")]
            return [(True, f"{nm}()" + path, "object returned by a package function")]
        if root[0] in ("dict", "set", "comp", "const", "bin", "fstr", "lambda", "enter", "fold", "mu", "unknown",
                       "exc", "func", "bound"):
            return [(root[0] in ("mu", "unknown", "fold") and False, "", "local value")]
        return [(False, "", "local value")]

    def _via_callers(self, root, path, f, depth):
        if depth >= 4:
            return [(True, f"<{root[1]} of {f.short}>" + path, "unresolved (depth)")]
        out = []
        for g in sorted(self._callers.get(f, ()), key=lambda x: x.short):
            s = self.te.summary(g)
            for c, tgs in s.calls.items():
                if f not in tgs:
                    continue
                amap = self.te._bind_args(f, c)
                if amap is None or root[1] not in amap:
                    continue
                for p, k, h in self._classify(amap[root[1]], g, depth + 1):
                    out.append((p, k + path, f"passed in by {g.short}"))
        if not out:
            return [(True, f"<{root[1]} of {f.short}>" + path, "parameter with no resolved caller")]
        # de-duplicate
        seen, uniq = set(), []
        for x in out:
            if (x[0], x[1]) not in seen:
                seen.add((x[0], x[1]))
                uniq.append(x)
        return uniq

    def _collect(self):
        te = self.te
        for f in sorted(self.reach, key=lambda x: x.short):
            if self.is_per_write(f) and f.name != "__setattr__":
                continue
            s = te.summary(f)
            cands = []
            for obj, key, val, e in attr_stores(s):
                cands.append((obj, key[1] if key[0] == "const" else None, key, val, e, "assign"))
            for e in s.effects:
                if e.kind == "store_sub":
                    cands.append((e.base, "[*]", None, e.value, e, "item"))
                elif e.kind == "del" and isinstance(e.value, tuple) and e.value[0] in ("attr", "sub"):
                    cands.append((e.value[1], e.value[2] if e.value[0] == "attr" else "[*]", None, ("const", None), e,
                                  "del"))
            seen_calls = set()
            for e in s.effects:
                for t in (e.value,) if e.kind == "call" else ():
                    if t[0] == "call" and t[1][0] == "attr" and t[1][2] in MUTATORS and t not in seen_calls:
                        seen_calls.add(t)
                        recv = t[1][1]
                        val = t[2][-1] if t[2] else ("const", None)
                        cands.append((recv, f"<{t[1][2]}>", None, val, e, "mutator"))
            generic_setter = f.kind == "setter" or f.name == "__setattr__"
            for obj, field, keyterm, val, e, how in cands:
                if generic_setter and obj == SELF and how == "assign" and any(
                        x[0] == "param" and x[1] in f.param_names[1:] for x in subterms(val)):
                    continue  # the mechanism of `obj.attr = v`: the stores that matter are its call sites
                kt = keyterm if field is None else ("const", field)
                seen = set()
                for persistent, prefix, fld, derived, res, pc, tgt, rv in self._resolve(obj, kt, val, f, 0, e.pc):
                    if not persistent or (prefix, fld, derived, rv, pc) in seen:
                        continue
                    seen.add((prefix, fld, derived, rv, pc))
                    key = f"{prefix}{fld}" if fld.startswith("[") else f"{prefix}.{fld}"
                    self.stores.append(PStore(key, fld, tgt, rv, derived, pc, f, res, how, e))

    def _resolve(self, obj, keyterm, val, f, depth, pc=(), owner=None):
        """Resolve one store (object term, attribute-name term, value term, path condition) made in f to the persistent
        object(s) it lands in: a store through a parameter (object or attribute name) is followed to every call site of
        f, with all terms rewritten into the caller's terms.
        -> [(persistent?, key prefix, field, derived?, how resolved, path condition, object term, value term)]"""
        root, _ = self._root(obj)
        needs_caller = (root[0] == "param" and root[1] not in ("self", "cls")) or \
            (keyterm is not None and keyterm[0] == "param")
        derived_here = self.is_derived(val, f)
        if needs_caller and depth < 4:
            out = []
            for g in sorted(self._callers.get(f, ()), key=lambda x: x.short):
                sg = self.te.summary(g)
                for c, tgs in sg.calls.items():
                    if f not in tgs:
                        continue
                    amap = self.te._bind_args(f, c)
                    if amap is None:
                        continue
                    o2, v2 = substitute(obj, amap), substitute(val, amap)
                    k2 = substitute(keyterm, amap) if keyterm is not None else None
                    site_pc = ()
                    for ge in sg.effects:
                        if any(isinstance(t, tuple) and any(x == c for x in subterms(t))
                               for t in (ge.base, ge.key, ge.value)):
                            site_pc = ge.pc
                            break
                    pc2 = site_pc + tuple(substitute(x, amap) for x in pc)
                    for p, pre, fld, d, res, pc3, tgt, rv in self._resolve(o2, k2, v2, g, depth + 1, pc2):
                        # provenance is judged per call site, on the value the caller actually passes
                        out.append((p, pre, fld, d, f"passed in by {g.short}", pc3, tgt, rv))
            if out:
                return out
        if keyterm is None:
            fld = "<dynamic>"
        elif keyterm[0] == "const":
            fld = str(keyterm[1])
        else:
            fld = "<" + pp(keyterm)[:30] + ">"
        # a store into self.<...> whose value / condition is phrased in parameters of a private helper method: rewrite
        # it into the terms of the methods that call the helper on the same object (self.helper(...)), so that the
        # inventory reads the same whether or not the work was split over helpers
        def self_rooted(t):
            r, _ = self._root(t)
            return r == SELF or (r[0] in ("tuple", "list") and r[1] and all(self_rooted(x) for x in r[1]))
        if self_rooted(obj) and depth < 4 and f.name.startswith("_") and not f.name.startswith("__"):
            if True:  # also when no parameter is mentioned: the call site's own condition belongs to the store
                out = []
                for g in sorted(self._callers.get(f, ()), key=lambda x: x.short):
                    sg = self.te.summary(g)
                    for c, tgs in sg.calls.items():
                        if f not in tgs or not (c[1][0] == "attr" and c[1][1] == SELF):
                            continue
                        amap = self.te._bind_args(f, c)
                        if amap is None:
                            continue
                        site_pc = ()
                        for ge in sg.effects:
                            if any(isinstance(t, tuple) and any(x == c for x in subterms(t))
                                   for t in (ge.base, ge.key, ge.value)):
                                site_pc = ge.pc
                                break
                        pc2 = site_pc + tuple(substitute(x, amap) for x in pc)
                        own = owner or self._owner_class(f)
                        for rec in self._resolve(obj, keyterm, substitute(val, amap), g, depth + 1, pc2, own):
                            out.append(rec)  # provenance judged on the value as the caller passes it
                if out:
                    return out
        out = []
        for p, pre, res in self._classify(obj, f, depth):
            if owner is not None and res == "self":
                c = self._owner_class(f)
                if c is not None and pre.startswith(c.name) and any(k is c for k in owner.mro()):
                    pre = owner.name + pre[len(c.name):]   # the most specific class whose method makes the store
                    p = not any(k.name in self.per_write for k in owner.mro())
            out.append((p, pre, fld, derived_here, res, pc, obj, val))
        return out

    def _dynamic_names(self, keyterm, f, depth=0) -> set:
        if keyterm is None:
            return set()
        if keyterm[0] == "const":
            return {str(keyterm[1])}
        out = set()
        if keyterm[0] == "param" and depth < 4:
            for g in self._callers.get(f, ()):
                s = self.te.summary(g)
                for c, tgs in s.calls.items():
                    if f in tgs:
                        amap = self.te._bind_args(f, c)
                        if amap and keyterm[1] in amap:
                            out |= self._dynamic_names(amap[keyterm[1]], g, depth + 1)
        if keyterm[0] == "ite":
            for _, a in alternatives(keyterm):
                out |= self._dynamic_names(a, f, depth)
        return out

    def _derived_at_callers(self, val, f) -> bool:
        # the helper's own parameters were already marked derived by the fixpoint if any caller passes a derived value
        return self.is_derived(val, f)


def guard_mentions_unset(pc, target_reads) -> bool:
    """Does the path condition contain a literal saying that (one of) `target_reads` is None / falsy?"""
    for lit in pc:
        if lit[0] == "cmp" and lit[1] == "is" and lit[3] == ("const", None) and lit[2] in target_reads:
            return True
        if lit[0] == "not" and lit[1] in target_reads:
            return True
        if lit[0] == "or" and any(guard_mentions_unset((x,), target_reads) for x in lit[1]):
            return False  # a disjunction does not guarantee it
    return False
