"""E2 - statement-level control-flow graph for one function, with exceptional edges, and path-rule primitives.

Nodes are ints; node 0 = ENTRY, 1 = EXIT (normal return), 2 = RAISE (exception leaves the function).
Every simple statement is one node; compound statements contribute a header node (test / iterator / with-items).
"""

from __future__ import annotations

import ast
from typing import Callable, Iterable, Optional

from . import AnalysisError

ENTRY, EXIT, RAISE = 0, 1, 2


class CFG:
    def __init__(self, func_node, may_raise: Optional[Callable[[ast.AST], bool]] = None):
        self.func = func_node
        self.succ: dict[int, set[int]] = {ENTRY: set(), EXIT: set(), RAISE: set()}
        self.esucc: dict[int, set[int]] = {ENTRY: set(), EXIT: set(), RAISE: set()}  # exceptional edges
        self.stmt: dict[int, ast.AST] = {}
        self.kind: dict[int, str] = {ENTRY: "entry", EXIT: "exit", RAISE: "raise-exit"}
        self.node_of: dict[int, int] = {}  # id(ast stmt) -> node
        self.branch: dict[int, tuple[int, int]] = {}  # if-node -> (then-entry, else-entry)
        self.loop: dict[int, tuple[int, int]] = {}  # loop header -> (body-entry, loop-exit)
        self._n = 3
        self.may_raise = may_raise or default_may_raise
        # context stacks
        self._handlers: list[int] = []  # innermost exception target
        self._loops: list[tuple[int, int]] = []  # (continue target, break target)
        self._finally: list = []
        body = func_node.body if not isinstance(func_node, ast.Lambda) else [ast.Return(value=func_node.body)]
        last = self._block(body, [ENTRY])
        for p in last:
            self._edge(p, EXIT)

    # ------------------------------------------------------------ construction
    def _new(self, stmt, kind) -> int:
        n = self._n
        self._n += 1
        self.succ[n] = set()
        self.esucc[n] = set()
        self.stmt[n] = stmt
        self.kind[n] = kind
        if stmt is not None and id(stmt) not in self.node_of:
            self.node_of[id(stmt)] = n
        return n

    def _edge(self, a, b):
        self.succ[a].add(b)

    def _eedge(self, a):
        tgt = self._handlers[-1] if self._handlers else RAISE
        self.esucc[a].add(tgt)

    def _block(self, stmts, preds: list[int]) -> list[int]:
        for st in stmts:
            preds = self._stmt(st, preds)
        return preds

    def _simple(self, st, preds, kind="stmt", expr_for_raise=None) -> int:
        n = self._new(st, kind)
        for p in preds:
            self._edge(p, n)
        if self.may_raise(expr_for_raise if expr_for_raise is not None else st):
            self._eedge(n)
        return n

    def _stmt(self, st, preds: list[int]) -> list[int]:
        if not preds:
            # unreachable code still gets nodes (so lookups work) but no incoming edges
            pass
        if isinstance(st, (ast.Assign, ast.AugAssign, ast.AnnAssign, ast.Expr, ast.Pass, ast.Assert, ast.Delete,
                           ast.Import, ast.ImportFrom, ast.Global, ast.Nonlocal, ast.FunctionDef, ast.ClassDef)):
            if isinstance(st, (ast.FunctionDef, ast.ClassDef)):
                n = self._new(st, "def")
                for p in preds:
                    self._edge(p, n)
                return [n]
            n = self._simple(st, preds)
            if isinstance(st, ast.Assert):
                self._eedge(n)
            return [n]
        if isinstance(st, ast.Return):
            n = self._simple(st, preds, "return")
            self._jump_through_finally(n, EXIT)
            return []
        if isinstance(st, ast.Raise):
            n = self._new(st, "raise")
            for p in preds:
                self._edge(p, n)
            self._eedge(n)
            return []
        if isinstance(st, ast.If):
            n = self._simple(st, preds, "if", st.test)
            te = self._new(None, "then-entry")
            fe = self._new(None, "else-entry")
            self._edge(n, te)
            self._edge(n, fe)
            self.branch[n] = (te, fe)
            a = self._block(st.body, [te])
            b = self._block(st.orelse, [fe]) if st.orelse else [fe]
            return a + b
        if isinstance(st, (ast.For, ast.While)):
            hdr = self._simple(st, preds, "loop", st.iter if isinstance(st, ast.For) else st.test)
            after = self._new(None, "loop-exit")
            self._loops.append((hdr, after))
            be = self._new(None, "loop-body-entry")
            self._edge(hdr, be)
            self.loop[hdr] = (be, after)
            body_end = self._block(st.body, [be])
            self._loops.pop()
            for p in body_end:
                self._edge(p, hdr)
            else_end = self._block(st.orelse, [hdr]) if st.orelse else [hdr]
            for p in else_end:
                self._edge(p, after)
            return [after]
        if isinstance(st, ast.Break):
            n = self._simple(st, preds, "break")
            self._edge(n, self._loops[-1][1])
            return []
        if isinstance(st, ast.Continue):
            n = self._simple(st, preds, "continue")
            self._edge(n, self._loops[-1][0])
            return []
        if isinstance(st, ast.With):
            n = self._simple(st, preds, "with", ast.Tuple(elts=[i.context_expr for i in st.items], ctx=ast.Load()))
            return self._block(st.body, [n])
        if isinstance(st, ast.Try):
            return self._try(st, preds)
        if isinstance(st, ast.Match):
            raise AnalysisError(f"match statement at line {st.lineno} is outside the modelled subset")
        raise AnalysisError(f"statement kind {type(st).__name__} at line {getattr(st, 'lineno', 0)} not modelled")

    def _jump_through_finally(self, n, target):
        # returns inside try/finally run the finally body first; modelled by routing through pending finally entries
        if self._finally:
            fin_entry, exits = self._finally[-1]
            self._edge(n, fin_entry)
            exits.add(target)
        else:
            self._edge(n, target)

    def _try(self, st: ast.Try, preds):
        has_finally = bool(st.finalbody)
        fin_entry = None
        fin_exits: set = set()
        if has_finally:
            fin_entry = self._new(None, "finally-entry")
            self._finally.append((fin_entry, fin_exits))
        # dispatch node for exceptions raised in the body
        disp = self._new(st, "except-dispatch")
        self._handlers.append(disp)
        body_end = self._block(st.body, preds)
        self._handlers.pop()
        # handlers run with the outer handler context (or the finally)
        outer_target_stack_push = False
        if has_finally:
            # exceptions raised in handlers / else go to finally, then propagate
            self._handlers.append(fin_entry)
            outer_target_stack_push = True
        handler_ends = []
        catches_all = False
        for h in st.handlers:
            hn = self._new(h, "handler")
            self._edge(disp, hn)
            if h.type is None or (isinstance(h.type, ast.Name) and h.type.id in ("BaseException", "Exception")):
                catches_all = True
            handler_ends += self._block(h.body, [hn])
        else_end = self._block(st.orelse, body_end) if st.orelse else body_end
        if outer_target_stack_push:
            self._handlers.pop()
        if not catches_all:
            # exception not matched by any handler propagates (through finally if present)
            if has_finally:
                self._edge(disp, fin_entry)
                fin_exits.add("propagate")
            else:
                tgt = self._handlers[-1] if self._handlers else RAISE
                self.esucc[disp].add(tgt)
        ends = else_end + handler_ends
        if not has_finally:
            return ends
        self._finally.pop()
        for p in ends:
            self._edge(p, fin_entry)
        if ends:
            fin_exits.add("fallthrough")
        fin_end = self._block(st.finalbody, [fin_entry])
        if any(fin_entry in es for es in self.esucc.values()):
            fin_exits.add("propagate")  # an exception raised in a handler / else block runs the finally, then propagates
        out = []
        for fe in fin_end:
            for x in fin_exits:
                if x == "fallthrough":
                    out.append(fe)
                elif x == "propagate":
                    tgt = self._handlers[-1] if self._handlers else RAISE
                    self.esucc[fe].add(tgt)
                elif self._finally:
                    self._jump_through_finally(fe, x)
                else:
                    self._edge(fe, x)
        return out

    # ------------------------------------------------------------ queries
    def nodes(self) -> Iterable[int]:
        return self.succ.keys()

    def all_succ(self, n, exceptional=True):
        return self.succ[n] | (self.esucc[n] if exceptional else set())

    def reachable(self, start: int, avoid: set = frozenset(), exceptional=True) -> set[int]:
        seen = set()
        work = [start]
        while work:
            n = work.pop()
            if n in seen or n in avoid:
                continue
            seen.add(n)
            work.extend(self.all_succ(n, exceptional))
        return seen

    def must_pass_through(self, targets: set[int], frm: int = ENTRY, to: int = EXIT, exceptional=True) -> bool:
        """Every path frm -> to contains a node of `targets`."""
        return to not in self.reachable(frm, avoid=set(targets), exceptional=exceptional)

    def dominated_by(self, node: int, doms: set[int]) -> bool:
        """Every path ENTRY -> node passes through one of doms (node itself excluded)."""
        if node in doms:
            return True
        return node not in self.reachable(ENTRY, avoid=set(doms))

    def loops_always_through(self, targets: set[int]) -> set[int]:
        """Headers of loops in which every iteration passes through a node of `targets` (no path from the body entry
        back to the header or out of the loop avoids them) - 'for every element, the target is executed'."""
        out = set()
        for hdr, (be, after) in self.loop.items():
            r = self.reachable(be, avoid=set(targets), exceptional=False)
            if hdr not in r and after not in r and EXIT not in r:
                out.add(hdr)
        return out

    def nodes_where(self, pred: Callable[[ast.AST], bool]) -> set[int]:
        return {n for n, s in self.stmt.items() if s is not None and self.kind[n] not in ("except-dispatch",)
                and pred(s)}

    def node_for(self, stmt) -> int:
        return self.node_of[id(stmt)]

    def stmt_line(self, n) -> int:
        s = self.stmt.get(n)
        return getattr(s, "lineno", 0) if s is not None else 0


NO_RAISE_CALLS = {"isinstance", "len", "callable", "id", "type", "repr", "bool", "print"}
LOGGER_METHODS = {"debug", "info", "warning", "error", "exception", "critical"}


def header_expr(st):
    """The part of a statement that is evaluated at its own CFG node (not the nested bodies)."""
    if isinstance(st, ast.If) or isinstance(st, ast.While):
        return st.test
    if isinstance(st, ast.For):
        return st.iter
    if isinstance(st, ast.With):
        return ast.Tuple(elts=[i.context_expr for i in st.items], ctx=ast.Load())
    if isinstance(st, (ast.Try, ast.ExceptHandler, ast.FunctionDef, ast.ClassDef)):
        return None
    return st


def default_may_raise(node) -> bool:
    """Conservative: a statement may raise if it contains a call (other than logging / a few total builtins),
    a subscript load, or is a raise/assert."""
    if node is None:
        return False
    for n in ast.walk(node):
        if isinstance(n, (ast.FunctionDef, ast.Lambda, ast.ClassDef)) and n is not node:
            continue
        if isinstance(n, ast.Call):
            f = n.func
            if isinstance(f, ast.Name) and f.id in NO_RAISE_CALLS:
                continue
            if isinstance(f, ast.Attribute) and f.attr in LOGGER_METHODS and isinstance(f.value, ast.Name) \
                    and f.value.id in ("logger", "logging"):
                continue
            return True
        if isinstance(n, ast.Subscript) and isinstance(getattr(n, "ctx", None), ast.Load):
            return True
        if isinstance(n, (ast.Raise, ast.Assert, ast.Yield, ast.YieldFrom, ast.Await)):
            return True  # an exception can be thrown into a suspended generator at its yield
    return False
