"""Command line:  /venv/bin/python -m sa.check <ID> [--tier quick|thorough] [--replay PATH] [--repo DIR]

exit 0 = every obligation of the property discharged (or only listed known findings)
exit 1 = a rule instance is refuted on the current tree (VIOLATION line printed)
exit 2 = the analysis could not be carried out (ANALYSIS-ERROR line printed)
"""

from __future__ import annotations

import argparse
import importlib
import json
import os
import sys
import traceback


def main(argv=None) -> int:
    ap = argparse.ArgumentParser()
    ap.add_argument("prop")
    ap.add_argument("--tier", default=os.environ.get("VERIF_TIER", "quick"), choices=["quick", "thorough"])
    ap.add_argument("--replay", default=None)
    ap.add_argument("--repo", default=None, help="analyse this checkout instead of /repo (self-tests)")
    ap.add_argument("--no-evidence", action="store_true")
    args = ap.parse_args(argv)
    if args.repo:
        os.environ["SA_REPO"] = args.repo
    try:
        seed = int(os.environ.get("VERIF_SEED", "0"))
    except ValueError:
        seed = 0
    prop = args.prop.upper()
    try:
        from . import AnalysisError
        import sa
        if args.repo:
            sa.REPO = args.repo
            sa.PKG_DIR = os.path.join(args.repo, "src", "dliswriter")
        from .index import Index
        from .callgraph import CallGraph
        from .report import Check
        mod = importlib.import_module(f"sa.props.{prop.lower()}")
        ix = Index(sa.PKG_DIR)
        cg = CallGraph(ix)
        chk = Check(prop, args.tier, seed, ix, cg)
        chk.floor("non-test modules parsed", len(ix.modules), 55)
        if ix.names_normalised:
            chk.info["names_normalised"] = ix.names_normalised
            print(f"note: renamed private names read back under their confirmed spelling: {ix.names_normalised}")
        mod.run(chk)
        if args.tier == "thorough" and hasattr(mod, "run_thorough"):
            mod.run_thorough(chk)
        chk.raise_deferred()
        if args.tier == "thorough" and not args.repo:
            from . import selftest
            selftest.run_for(chk, prop)
        cmd = f"/venv/bin/python -m sa.check {prop} --tier {args.tier}"
        rc = chk.finish(mod.LEVEL, mod.EXPLANATION, cmd, write=not (args.no_evidence or args.repo))
        if args.replay:
            try:
                with open(args.replay) as f:
                    rp = json.load(f)
                still = [o for o in chk.obs if o.rule == rp.get("rule") and o.key == rp.get("instance")
                         and o.status == "violated"]
                print(f"replay {args.replay}: {'still violated' if still else 'no longer violated'}")
            except OSError as exc:
                print(f"replay file not readable: {exc}")
        return rc
    except Exception as exc:  # noqa: BLE001 - every failure of the analysis itself is exit 2, never a violation
        from . import AnalysisError as AE
        kind = "ANALYSIS-ERROR"
        if not isinstance(exc, AE):
            traceback.print_exc()
        print(f"{kind} property={prop} {type(exc).__name__}: {exc}")
        return 2


if __name__ == "__main__":
    sys.exit(main())
