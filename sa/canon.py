"""Alpha-normalisation of private names (engine E0, applied by the Index before anything else looks at the tree).

The rules name their anchors - private fields, private methods, module-private helpers, parameters of private functions -
as they are spelled in the tree the rules were confirmed on.  Renaming such a name consistently is a behaviour-preserving
edit, and without this pass it would make the anchors vanish (exit 2 at best).  The pass undoes the renaming in the
parsed trees, *not* in the files: for every private name of the confirmed tree that no longer occurs in a module it
looks, in the same module, for a private name the confirmed tree did not have whose occurrences - which definitions it
appears in, as load / store / definition / keyword / string, in source order - are those of the vanished name, and
rewrites the identifier nodes back to the confirmed spelling.  Parameters of private functions are compared by position.
Nothing else is touched: statements, structure, line numbers stay those of the current source, so every rule still
decides the current tree.  A vanished name without a confident counterpart is left alone (the rules then fail closed
with an analysis error, as before).  The renamings undone are listed in the evidence (`names_normalised`).

The table of the confirmed tree's names (sa/reference_names.json) is produced by `python -m sa.canon --write` and is
committed; on a tree whose private names are those of the table the pass is the identity.
"""

from __future__ import annotations

import ast
import json
import os
import re
import sys
from collections import Counter

REF_PATH = os.path.join(os.path.dirname(os.path.abspath(__file__)), "reference_names.json")
_PRIVATE = re.compile(r"^_[A-Za-z][A-Za-z0-9_]*$")


def is_private(name) -> bool:
    return isinstance(name, str) and bool(_PRIVATE.match(name)) and not (name.startswith("__") and name.endswith("__"))


def _sites_of_module(tree: ast.Module):
    """[(name, enclosing definition path, kind, lineno, col)] for every occurrence of a private identifier, and
    {definition path: [parameter names]} for every function."""
    sites, params = [], {}

    def visit(node, path):
        for child in ast.iter_child_nodes(node):
            here = path
            if isinstance(child, (ast.FunctionDef, ast.AsyncFunctionDef, ast.ClassDef)):
                if is_private(child.name):
                    sites.append((child.name, path, "def", child.lineno, child.col_offset))
                here = f"{path}.{child.name}" if path else child.name
                if not isinstance(child, ast.ClassDef):
                    a = child.args
                    params[here] = [x.arg for x in a.posonlyargs + a.args] + \
                        ([("*" + a.vararg.arg)] if a.vararg else []) + [x.arg for x in a.kwonlyargs] + \
                        ([("**" + a.kwarg.arg)] if a.kwarg else [])
            elif isinstance(child, ast.Attribute) and is_private(child.attr):
                kind = "store" if isinstance(child.ctx, (ast.Store, ast.Del)) else "load"
                sites.append((child.attr, path, "attr-" + kind, child.lineno, child.col_offset))
            elif isinstance(child, ast.Name) and is_private(child.id):
                kind = "store" if isinstance(child.ctx, (ast.Store, ast.Del)) else "load"
                sites.append((child.id, path, "name-" + kind, child.lineno, child.col_offset))
            elif isinstance(child, ast.keyword) and is_private(child.arg):
                sites.append((child.arg, path, "kw", child.value.lineno, child.value.col_offset))
            elif isinstance(child, ast.alias) and is_private(child.name):
                sites.append((child.name, path, "import", getattr(child, "lineno", 0), getattr(child, "col_offset", 0)))
            elif isinstance(child, ast.Constant) and is_private(child.value):
                sites.append((child.value, path, "str", child.lineno, child.col_offset))
            visit(child, here)
    visit(tree, "")
    sites.sort(key=lambda s: (s[3], s[4]))
    return sites, params


def table_of(trees: dict) -> dict:
    """{module: {"names": {name: [[path, kind], ...] in source order}, "params": {path: [names]}}}"""
    out = {}
    for mod, tree in trees.items():
        sites, params = _sites_of_module(tree)
        names: dict = {}
        for n, path, kind, _l, _c in sites:
            names.setdefault(n, []).append([path, kind])
        out[mod] = {"names": names, "params": params}
    return out


def _blur(path: str, unknown: set) -> str:
    return ".".join("?" if p in unknown else p for p in path.split(".")) if path else ""


def _similarity(a: list, b: list) -> float:
    ca, cb = Counter(map(tuple, a)), Counter(map(tuple, b))
    inter = sum((ca & cb).values())
    union = sum((ca | cb).values())
    return inter / union if union else 0.0


def match_module(ref: dict, cur: dict) -> dict:
    """{current name: confirmed name} for the private names of one module that were renamed."""
    rnames, cnames = ref["names"], cur["names"]
    missing = [n for n in rnames if n not in cnames]
    extra = [n for n in cnames if n not in rnames]
    if not missing or not extra:
        return {}
    unknown = set(missing) | set(extra)
    rsig = {n: [(_blur(p, unknown), k) for p, k in rnames[n]] for n in missing}
    csig = {n: [(_blur(p, unknown), k) for p, k in cnames[n]] for n in extra}
    mapping, used = {}, set()
    # exact, ordered agreement first (ties: the order in which the names first appear, which a renaming keeps)
    for m in missing:
        cands = [e for e in extra if e not in used and csig[e] == rsig[m]]
        if cands:
            mapping[cands[0]] = m
            used.add(cands[0])
    # then a clearly best partial agreement (a renaming combined with a small edit nearby)
    for m in missing:
        if m in mapping.values():
            continue
        scored = sorted(((_similarity(rsig[m], csig[e]), e) for e in extra if e not in used), reverse=True)
        if scored and scored[0][0] >= 0.75 and (len(scored) == 1 or scored[1][0] <= scored[0][0] - 0.25):
            mapping[scored[0][1]] = m
            used.add(scored[0][1])
    return mapping


class _Rename(ast.NodeVisitor):
    def __init__(self, mapping):
        self.mapping = mapping
        self.count = 0

    def generic_visit(self, node):
        m = self.mapping
        if isinstance(node, (ast.FunctionDef, ast.AsyncFunctionDef, ast.ClassDef)) and node.name in m:
            node.name = m[node.name]
            self.count += 1
        elif isinstance(node, ast.Attribute) and node.attr in m:
            node.attr = m[node.attr]
            self.count += 1
        elif isinstance(node, ast.Name) and node.id in m:
            node.id = m[node.id]
            self.count += 1
        elif isinstance(node, ast.keyword) and node.arg in m:
            node.arg = m[node.arg]
            self.count += 1
        elif isinstance(node, ast.alias) and node.name in m:
            if node.asname is None:
                node.asname = None
            node.name = m[node.name]
            self.count += 1
        elif isinstance(node, ast.Constant) and isinstance(node.value, str) and node.value in m:
            node.value = m[node.value]
            self.count += 1
        super().generic_visit(node)


def _find_def(tree, path):
    node = tree
    for part in path.split("."):
        nxt = None
        for ch in ast.walk(node) if node is tree else ast.iter_child_nodes(node):
            if isinstance(ch, (ast.FunctionDef, ast.AsyncFunctionDef, ast.ClassDef)) and ch.name == part:
                nxt = ch
                break
        if nxt is None:
            # one level of nesting inside statements (if / try at class or module level)
            for ch in ast.walk(node):
                if ch is not node and isinstance(ch, (ast.FunctionDef, ast.AsyncFunctionDef, ast.ClassDef)) \
                        and ch.name == part:
                    nxt = ch
                    break
        if nxt is None:
            return None
        node = nxt
    return node


def _rename_params(tree, trees, path, pairs) -> int:
    """Rename parameters (current -> confirmed) inside one function, and the keywords of calls of that function."""
    fn = _find_def(tree, path)
    if fn is None:
        return 0
    m = dict(pairs)
    n = 0
    for node in ast.walk(fn):
        if isinstance(node, ast.arg) and node.arg in m:
            node.arg = m[node.arg]
            n += 1
        elif isinstance(node, ast.Name) and node.id in m:
            node.id = m[node.id]
            n += 1
    short = path.split(".")[-1]
    for t in trees.values():
        for node in ast.walk(t):
            if isinstance(node, ast.Call):
                f = node.func
                nm = f.attr if isinstance(f, ast.Attribute) else (f.id if isinstance(f, ast.Name) else None)
                if nm == short:
                    for kw in node.keywords:
                        if kw.arg in m:
                            kw.arg = m[kw.arg]
                            n += 1
    return n


def normalise(trees: dict, reference: dict = None) -> dict:
    """Rewrite the identifier nodes of `trees` ({module name: ast.Module}) back to the confirmed spelling.
    Returns {module: {current: confirmed}} (+ 'params' entries) - empty when nothing was renamed."""
    if reference is None:
        try:
            with open(REF_PATH) as f:
                reference = json.load(f)
        except OSError:
            return {}
    common = [m for m in trees if m in reference]
    if not common:
        return {}
    current = table_of({m: trees[m] for m in common})
    report = {}
    for mod in common:
        mp = match_module(reference[mod], current[mod])
        if mp:
            r = _Rename(mp)
            r.visit(trees[mod])
            report[mod] = dict(mp)
    # names imported from a module in which they were renamed: apply that module's mapping to its importers
    renamed_defs = {}
    for mod, mp in report.items():
        for cur, ref in mp.items():
            renamed_defs.setdefault(cur, set()).add(ref)
    # parameters of private functions, by position (after the function names are back to their confirmed spelling)
    if report:
        current = table_of({m: trees[m] for m in common})
    for mod in common:
        for path, rparams in reference[mod]["params"].items():
            cparams = current[mod]["params"].get(path)
            if cparams is None or cparams == rparams or len(cparams) != len(rparams):
                continue
            short = path.split(".")[-1]
            nested = "." in path and not path.split(".")[-2][:1].isupper()
            if not (is_private(short) or nested):
                continue        # parameters of public functions are API (keyword callers): not a renaming to undo
            pairs = [(c.lstrip("*"), r.lstrip("*")) for c, r in zip(cparams, rparams) if c != r]
            if any(c in [x.lstrip("*") for x in rparams] for c, _ in pairs):
                continue        # a permutation of the confirmed names is not a renaming
            if _rename_params(trees[mod], trees, path, pairs):
                report.setdefault(mod, {}).update({f"{path}({c})": r for c, r in pairs})
    return report


def main():
    import sa
    from .index import Index
    ix = Index(sa.PKG_DIR, _normalise=False)
    table = table_of({n: m.tree for n, m in ix.modules.items()})
    if "--write" in sys.argv:
        with open(REF_PATH, "w") as f:
            json.dump(table, f, indent=0, sort_keys=True)
        print(f"wrote {REF_PATH}: {len(table)} modules, "
              f"{sum(len(t['names']) for t in table.values())} private names")
    else:
        with open(REF_PATH) as f:
            ref = json.load(f)
        print("reference is current" if ref == json.loads(json.dumps(table)) else "reference differs from the tree")


if __name__ == "__main__":
    main()
