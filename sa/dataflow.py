"""Reaching definitions on the statement CFG and a package-wide taint analysis of caller-owned data (E5)."""

from __future__ import annotations

import ast
from typing import Optional, Iterable

from .cfg import CFG, ENTRY, header_expr
from .index import Index, FuncInfo, Scope, walk_local, walk_expr
from .common import norm


# ------------------------------------------------------------------------------------------------- reaching definitions

class ReachingDefs:
    """For a function: which assignments of a local name can reach a given statement (path-insensitive union over the
    CFG's paths; parameters count as a definition 'param')."""

    def __init__(self, func: FuncInfo):
        self.func = func
        self.g = CFG(func.node)
        self.pred: dict[int, set[int]] = {n: set() for n in self.g.nodes()}
        for n in self.g.nodes():
            for s in self.g.all_succ(n):
                self.pred.setdefault(s, set()).add(n)
        self.defs_at: dict[int, dict[str, ast.AST]] = {}
        for n, st in self.g.stmt.items():
            if st is None:
                continue
            d = {}
            h = st
            if isinstance(st, ast.Assign):
                for t in st.targets:
                    for nm in _names(t):
                        d[nm] = st.value
            elif isinstance(st, ast.AnnAssign) and st.value is not None:
                for nm in _names(st.target):
                    d[nm] = st.value
            elif isinstance(st, ast.AugAssign):
                for nm in _names(st.target):
                    d[nm] = st
            elif isinstance(st, ast.For):
                for nm in _names(st.target):
                    d[nm] = ("iter", st.iter)
            elif isinstance(st, ast.With):
                for it in st.items:
                    if it.optional_vars is not None:
                        for nm in _names(it.optional_vars):
                            d[nm] = it.context_expr
            hx = header_expr(st)
            if hx is not None:
                for x in walk_expr(hx):
                    if isinstance(x, ast.NamedExpr):
                        d[x.target.id] = x.value
            if d:
                self.defs_at[n] = d

    def node_of(self, stmt) -> Optional[int]:
        return self.g.node_of.get(id(stmt))

    def stmt_containing(self, node: ast.AST) -> Optional[int]:
        for n, st in self.g.stmt.items():
            if st is None:
                continue
            hx = header_expr(st)
            if hx is None:
                continue
            if hx is node or any(x is node for x in ast.walk(hx)):
                return n
        return None

    def reaching(self, name: str, at: int) -> list:
        """Definitions (value expressions, or 'param') of `name` that can reach the statement node `at`."""
        out, seen = [], set()
        work = list(self.pred.get(at, ()))
        while work:
            n = work.pop()
            if n in seen:
                continue
            seen.add(n)
            d = self.defs_at.get(n, {})
            if name in d:
                out.append(d[name])
                continue
            if n == ENTRY:
                if name in self.func.param_names or (self.func.node.args.kwarg and self.func.node.args.kwarg.arg == name):
                    out.append("param")
                continue
            work.extend(self.pred.get(n, ()))
        return out

    def expand(self, expr: ast.AST, at: int, depth: int = 6) -> list[str]:
        """All source texts that can flow into `expr` through local names (transitively), as normalised strings."""
        out = [norm(expr)]
        if depth <= 0:
            return out
        for x in ast.walk(expr):
            if isinstance(x, ast.Name) and isinstance(x.ctx, ast.Load):
                for d in self.reaching(x.id, at):
                    if d == "param":
                        out.append(f"<param {x.id}>")
                    elif isinstance(d, tuple):
                        out.append("<iter> " + norm(d[1]))
                        dn = self.stmt_containing(d[1])
                        if dn is not None:
                            out += self.expand(d[1], dn, depth - 1)
                    elif isinstance(d, ast.AST):
                        dn = self.stmt_containing(d) if not isinstance(d, ast.AugAssign) else self.node_of(d)
                        if dn is not None and dn != at:
                            out += self.expand(d if not isinstance(d, ast.AugAssign) else d.value, dn, depth - 1)
                        else:
                            out.append(norm(d))
        return out


def _names(t) -> list[str]:
    if isinstance(t, ast.Name):
        return [t.id]
    if isinstance(t, (ast.Tuple, ast.List)):
        return [n for e in t.elts for n in _names(e)]
    if isinstance(t, ast.Starred):
        return _names(t.value)
    return []


# ------------------------------------------------------------------------------------------------- taint of caller data

VIEW_ATTRS = {"T", "real", "imag", "flat", "base"}
VIEW_METHODS = {"view", "reshape", "ravel", "squeeze", "transpose", "swapaxes", "values", "items", "get", "__getitem__",
                "astype_nocopy"}
COPY_METHODS = {"copy", "tobytes", "tolist", "min", "max", "mean", "sum", "item", "keys", "flatten", "round", "all",
                "any", "argsort", "cumsum", "diff", "std", "median"}
INPLACE_METHODS = {"sort", "fill", "resize", "put", "itemset", "partition", "setflags", "setfield", "update", "pop",
                   "clear", "setdefault", "popitem", "__setitem__", "__delitem__", "remove", "append", "extend",
                   "insert", "reverse"}
NP_INPLACE_FUNCS = {"copyto": 0, "place": 0, "put": 0, "putmask": 0, "put_along_axis": 0, "fill_diagonal": 0,
                    "nan_to_num": None}
FRESH_NP = {"zeros", "empty", "ones", "array", "arange", "full", "diff", "unique", "median", "concatenate", "stack",
            "zeros_like", "empty_like", "frombuffer_copy", "isfinite", "iinfo", "issubdtype", "dtype", "allclose"}


class Taint:
    """Which expressions may alias memory owned by the caller of the public API (arrays / dicts passed in)?
    Flow-insensitive per function, interprocedural through parameters, returns, yields and instance fields."""

    def __init__(self, ix: Index, cg, source_params: dict, source_fields: set, value_fields: set = frozenset()):
        """source_params: {FuncInfo: {param names}}; source_fields: {(class name, field)} fields that hold caller-owned
        objects; value_fields: fields holding a library-owned container whose *values* are caller-owned."""
        self.ix, self.cg = ix, cg
        self.value_fields = set(value_fields)
        self.vars: set = set()      # (FuncInfo, name)
        self.fields: set = set(source_fields)  # (class name, field name)
        self.returns: set = set()   # FuncInfo whose return / yielded values may be tainted
        self.why: dict = {}
        for f, names in source_params.items():
            for n in names:
                self.vars.add((f, n))
                self.why[(f, n)] = "parameter holding caller data"
        self.funcs = [f for f in ix.functions.values() if isinstance(f.node, ast.FunctionDef)]
        self._fix()

    # -- is an expression tainted (may alias caller memory)?
    def tainted(self, e: ast.AST, f: FuncInfo) -> bool:
        if isinstance(e, ast.Name):
            if (f, e.id) in self.vars:
                return True
            p = f.parent
            while p is not None:
                if (p, e.id) in self.vars:
                    return True
                p = p.parent
            return False
        if isinstance(e, ast.Attribute):
            if e.attr in VIEW_ATTRS:
                return self.tainted(e.value, f)
            # instance field known to hold caller data
            cls = self._recv_classes(e.value, f)
            for c in cls:
                for k in c.mro():
                    if (k.name, e.attr) in self.fields:
                        return True
            # property returning tainted data
            for g in self.ix.resolve_property_load(e, Scope(self.ix, f)):
                if g in self.returns:
                    return True
            return False
        if isinstance(e, ast.Subscript):
            if self._is_value_container(e.value, f):
                return True
            # obj[key] on an instance of a package class is a call of its __getitem__
            if self._dunder_returns_tainted(e.value, f, ("__getitem__",)):
                return True
            return self.tainted(e.value, f)   # slicing / indexing gives a view (or an element of a caller's dict)
        if isinstance(e, ast.Starred):
            return self.tainted(e.value, f)
        if isinstance(e, ast.IfExp):
            return self.tainted(e.body, f) or self.tainted(e.orelse, f)
        if isinstance(e, ast.BoolOp):
            return any(self.tainted(v, f) for v in e.values)
        if isinstance(e, ast.NamedExpr):
            return self.tainted(e.value, f)
        if isinstance(e, ast.BinOp):
            if isinstance(e.op, ast.BitOr):
                return False  # dict | dict and array | array build new objects
            return False
        if isinstance(e, (ast.Tuple, ast.List)):
            return any(self.tainted(x, f) for x in e.elts)
        if isinstance(e, ast.Call):
            fn = e.func
            if isinstance(fn, ast.Attribute):
                if fn.attr == "astype":
                    cp = [k for k in e.keywords if k.arg == "copy"]
                    if cp and isinstance(cp[0].value, ast.Constant) and cp[0].value.value is False:
                        return self.tainted(fn.value, f)
                    return False
                if fn.attr == "byteswap":
                    inpl = (e.args and isinstance(e.args[0], ast.Constant) and e.args[0].value is True) or \
                        any(k.arg == "inplace" and isinstance(k.value, ast.Constant) and k.value.value is True
                            for k in e.keywords)
                    return inpl and self.tainted(fn.value, f)
                if fn.attr in COPY_METHODS:
                    return False
                if fn.attr in VIEW_METHODS and self.tainted(fn.value, f):
                    return True
                if fn.attr in ("values", "items", "get", "pop", "setdefault") and self._is_value_container(fn.value, f):
                    return True
                if fn.attr in ("asarray", "ascontiguousarray", "asanyarray", "atleast_1d", "nan_to_num", "squeeze",
                               "reshape", "ravel", "frombuffer") and e.args:
                    if fn.attr == "nan_to_num":
                        cp = [k for k in e.keywords if k.arg == "copy"]
                        if not (cp and isinstance(cp[0].value, ast.Constant) and cp[0].value.value is False):
                            return False
                    return self.tainted(e.args[0], f)
                if fn.attr in FRESH_NP:
                    return False
            if isinstance(fn, ast.Name) and fn.id in ("next", "iter", "list", "tuple", "reversed", "sorted") and e.args:
                return self.tainted(e.args[0], f) if fn.id != "sorted" else False
            targets, ext, _ = self.ix.resolve_call(e, Scope(self.ix, f))
            if any(t in self.returns for t in targets):
                return True
            # constructors keep references to their arguments in fields: handled through field taint
            return False
        return False

    def _dunder_returns_tainted(self, base, f, names) -> bool:
        """True when `base` is an instance of a package class one of whose special methods `names` (looked up along
        the MRO and in subclasses, as the receiver's static type may be the base class) may return caller data."""
        for c in self._recv_classes(base, f):
            klasses = list(c.mro()) + [k for k in self.ix.classes.values() if c in k.mro()[1:]]
            for k in klasses:
                for nm in names:
                    g = k.methods.get(nm) if hasattr(k, "methods") else None
                    if g is not None and g in self.returns:
                        return True
        return False

    def _is_value_container(self, e, f) -> bool:
        if isinstance(e, ast.Attribute):
            for c in self._recv_classes(e.value, f):
                for k in c.mro():
                    if (k.name, e.attr) in self.value_fields:
                        return True
        return False

    def _recv_classes(self, base, f):
        t = self.ix.infer(base, Scope(self.ix, f))
        if t is None:
            return []
        if t[0] == "inst":
            return [t[1]]
        if t[0] == "union":
            return [x[1] for x in t[1] if x[0] == "inst"]
        return []

    def _fix(self):
        changed = True
        rounds = 0
        while changed and rounds < 30:
            changed = False
            rounds += 1
            for f in self.funcs:
                sc = Scope(self.ix, f)
                for n in walk_local(f.node):
                    # assignments
                    pairs = []
                    if isinstance(n, ast.Assign):
                        for t in n.targets:
                            pairs += _destructure_pairs(t, n.value)
                    elif isinstance(n, ast.AnnAssign) and n.value is not None:
                        pairs += _destructure_pairs(n.target, n.value)
                    elif isinstance(n, ast.NamedExpr):
                        pairs.append((n.target, n.value))
                    elif isinstance(n, (ast.For, ast.comprehension)):
                        pairs += _destructure_pairs(n.target, n.iter)
                    elif isinstance(n, ast.With):
                        for it in n.items:
                            if it.optional_vars is not None:
                                pairs.append((it.optional_vars, it.context_expr))
                    for tgt, val in pairs:
                        if not self.tainted(val, f):
                            continue
                        if isinstance(tgt, ast.Name):
                            if (f, tgt.id) not in self.vars:
                                self.vars.add((f, tgt.id))
                                self.why[(f, tgt.id)] = f"{f.short}: {tgt.id} = {norm(val)[:60]}"
                                changed = True
                        elif isinstance(tgt, ast.Attribute):
                            for c in self._recv_classes(tgt.value, f):
                                if (c.name, tgt.attr) not in self.fields:
                                    self.fields.add((c.name, tgt.attr))
                                    self.why[(c.name, tgt.attr)] = f"{f.short}: {norm(tgt)} = {norm(val)[:60]}"
                                    changed = True
                    # comprehension generators
                    if isinstance(n, (ast.ListComp, ast.GeneratorExp, ast.SetComp, ast.DictComp)):
                        for g in n.generators:
                            for tgt, val in _destructure_pairs(g.target, g.iter):
                                if isinstance(tgt, ast.Name) and self.tainted(val, f) and (f, tgt.id) not in self.vars:
                                    self.vars.add((f, tgt.id))
                                    changed = True
                    # returns / yields
                    if isinstance(n, (ast.Return, ast.Yield, ast.YieldFrom)) and n.value is not None:
                        if self.tainted(n.value, f) and f not in self.returns:
                            self.returns.add(f)
                            self.why[f] = f"{f.short} returns / yields {norm(n.value)[:60]}"
                            changed = True
                    # calls: argument -> parameter
                    if isinstance(n, ast.Call):
                        targets, ext, _ = self.ix.resolve_call(n, sc)
                        for g in targets:
                            if isinstance(g.node, ast.Lambda):
                                continue
                            params = list(g.node.args.posonlyargs) + list(g.node.args.args)
                            if g.cls is not None and g.parent is None and g.kind in ("method", "classmethod", "property",
                                                                                   "setter"):
                                params = params[1:]
                            allp = {p.arg for p in params} | {p.arg for p in g.node.args.kwonlyargs}
                            binds = []
                            for i, a in enumerate(n.args):
                                if isinstance(a, ast.Starred):
                                    break
                                if i < len(params):
                                    binds.append((params[i].arg, a))
                            for k in n.keywords:
                                if k.arg in allp:
                                    binds.append((k.arg, k.value))
                            for pname, a in binds:
                                if self.tainted(a, f) and (g, pname) not in self.vars:
                                    self.vars.add((g, pname))
                                    self.why[(g, pname)] = f"{f.short} passes {norm(a)[:50]} as {g.short}({pname}=)"
                                    changed = True

    # -- sinks
    def sinks(self) -> list:
        """(func, node, description) for every in-place operation applied to a tainted expression."""
        out = []
        for f in self.funcs:
            for n in walk_local(f.node):
                if isinstance(n, (ast.Assign, ast.AugAssign, ast.AnnAssign, ast.Delete)):
                    tgs = n.targets if isinstance(n, (ast.Assign, ast.Delete)) else [n.target]
                    for t in tgs:
                        for tt in (t.elts if isinstance(t, (ast.Tuple, ast.List)) else [t]):
                            if isinstance(tt, ast.Subscript) and self.tainted(tt.value, f):
                                out.append((f, n, f"item / slice store into caller data: `{norm(n)[:70]}`"))
                            elif isinstance(n, ast.AugAssign) and self.tainted(tt, f) and not isinstance(tt, ast.Name):
                                out.append((f, n, f"augmented assignment on caller data: `{norm(n)[:70]}`"))
                            elif isinstance(n, ast.AugAssign) and isinstance(tt, ast.Name) and self.tainted(tt, f):
                                out.append((f, n, f"in-place operator on caller data: `{norm(n)[:70]}`"))
                            elif isinstance(tt, ast.Attribute) and tt.attr in ("shape", "dtype", "strides", "flags",
                                                                                "writeable") \
                                    and self.tainted(tt.value, f):
                                out.append((f, n, f"attribute of caller array rewritten: `{norm(n)[:70]}`"))
                if isinstance(n, ast.Call):
                    fn = n.func
                    if isinstance(fn, ast.Attribute):
                        if fn.attr in INPLACE_METHODS and self.tainted(fn.value, f):
                            out.append((f, n, f"in-place method .{fn.attr}() on caller data: `{norm(n)[:70]}`"))
                        if fn.attr == "byteswap" and self.tainted(fn.value, f):
                            inpl = (n.args and not (isinstance(n.args[0], ast.Constant) and n.args[0].value is False)) \
                                or any(k.arg == "inplace" and not (isinstance(k.value, ast.Constant)
                                                                   and k.value.value is False) for k in n.keywords)
                            if inpl:
                                out.append((f, n, f"in-place byte swap of caller data: `{norm(n)[:70]}`"))
                        if fn.attr in NP_INPLACE_FUNCS and n.args and self.tainted(n.args[0], f):
                            if fn.attr == "nan_to_num":
                                cp = [k for k in n.keywords if k.arg == "copy"]
                                if not (cp and isinstance(cp[0].value, ast.Constant) and cp[0].value.value is False):
                                    continue
                            out.append((f, n, f"numpy in-place function {fn.attr}() on caller data: `{norm(n)[:70]}`"))
                    for k in n.keywords:
                        if k.arg == "out" and self.tainted(k.value, f):
                            out.append((f, n, f"ufunc writes into caller data (out=): `{norm(n)[:70]}`"))
        return out


def _destructure_pairs(target, value):
    if isinstance(target, (ast.Tuple, ast.List)) and isinstance(value, (ast.Tuple, ast.List)) \
            and len(target.elts) == len(value.elts):
        out = []
        for t, v in zip(target.elts, value.elts):
            out += _destructure_pairs(t, v)
        return out
    if isinstance(target, (ast.Tuple, ast.List)):
        return [(t, value) for t in target.elts]
    return [(target, value)]
